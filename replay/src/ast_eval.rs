//! Native evaluation of two small AST-level helpers through the guarded hooks:
//!   export-eval : `expander::export` for every declaration kind x flag set
//!   mut-eval    : `mutability::needs_outer_mutability` for a sequence of reference steps

use enumset::EnumSet;
use penne::alpha::common::*;
use penne::alpha::error::Poison;
use penne::alpha::lexer::Location;
use std::io::BufRead;

fn loc() -> Location
{
	Location {
		source_filename: String::new(),
		span: 0..0,
		line_number: 1,
		line_offset: 1,
	}
}

fn id(n: u32) -> Identifier
{
	Identifier {
		name: format!("id{n}"),
		location: loc(),
		resolution_id: n,
		is_authoritative: true,
	}
}

fn decl(kind: &str, flags: EnumSet<DeclarationFlag>) -> Declaration
{
	let vt = || Ok(penne::alpha::value_type::ValueType::Int32);
	match kind
	{
		"Constant" => Declaration::Constant {
			name: id(1),
			value: Expression::BooleanLiteral {
				value: true,
				location: loc(),
			},
			value_type: vt(),
			flags,
			depth: None,
			location_of_declaration: loc(),
			location_of_type: loc(),
		},
		"Function" => Declaration::Function {
			name: id(2),
			parameters: Vec::new(),
			body: Ok(FunctionBody {
				statements: Vec::new(),
				return_value: None,
				return_value_identifier: id(3),
			}),
			return_type: vt(),
			flags,
			location_of_declaration: loc(),
			location_of_return_type: loc(),
		},
		"FunctionHead" => Declaration::FunctionHead {
			name: id(4),
			parameters: Vec::new(),
			return_type: vt(),
			flags,
			location_of_declaration: loc(),
			location_of_return_type: loc(),
		},
		"Structure" => Declaration::Structure {
			name: id(5),
			members: Vec::new(),
			structural_type: vt(),
			flags,
			depth: None,
			location_of_declaration: loc(),
		},
		"Import" => Declaration::Import {
			filename: "x.pn".to_string(),
			location: loc(),
		},
		"Poison" => Declaration::Poison(Poison::Poisoned),
		other => panic!("unknown declaration kind {other}"),
	}
}

fn describe(d: &Declaration) -> String
{
	match d
	{
		Declaration::Constant { name, flags, .. } =>
		{
			format!("Constant {} {}", flags.as_u8(), name.resolution_id)
		}
		Declaration::Function { name, flags, .. } =>
		{
			format!("Function {} {}", flags.as_u8(), name.resolution_id)
		}
		Declaration::FunctionHead { name, flags, .. } =>
		{
			format!("FunctionHead {} {}", flags.as_u8(), name.resolution_id)
		}
		Declaration::Structure { name, flags, .. } =>
		{
			format!("Structure {} {}", flags.as_u8(), name.resolution_id)
		}
		Declaration::Import { .. } => "Import 0 0".to_string(),
		Declaration::Poison(_) => "Poison 0 0".to_string(),
	}
}

pub fn run_export()
{
	let stdin = std::io::stdin();
	for line in stdin.lock().lines()
	{
		let line = line.unwrap();
		let w: Vec<&str> = line.split(' ').collect();
		let bits: u8 = w[1].parse().unwrap();
		let flags = EnumSet::<DeclarationFlag>::from_u8_truncated(bits);
		let d = decl(w[0], flags);
		let once = penne::alpha::expander::verif_hooks::export(&d);
		match once
		{
			None => println!("none"),
			Some(e) =>
			{
				let twice = penne::alpha::expander::verif_hooks::export(&e);
				println!(
					"{} reexport={}",
					describe(&e),
					if twice.is_some() { "some" } else { "none" }
				);
			}
		}
	}
}

fn step(name: &str) -> ReferenceStep
{
	match name
	{
		"Element" | "Element:none" | "Element:true" | "Element:false" => ReferenceStep::Element {
			argument: Box::new(Expression::BooleanLiteral {
				value: true,
				location: loc(),
			}),
			is_endless: match name
			{
				"Element:true" => Some(true),
				"Element:false" => Some(false),
				_ => None,
			},
		},
		"Member:some" => ReferenceStep::Member {
			member: id(7),
			offset: Some(1),
		},
		"Member" => ReferenceStep::Member {
			member: id(7),
			offset: None,
		},
		"Autodeslice:ArrayByView" => ReferenceStep::Autodeslice {
			offset: DesliceOffset::ArrayByView,
		},
		"Autodeslice:ArrayByPointer" => ReferenceStep::Autodeslice {
			offset: DesliceOffset::ArrayByPointer,
		},
		"Autodeslice:Length" => ReferenceStep::Autodeslice {
			offset: DesliceOffset::Length,
		},
		"Autoderef" => ReferenceStep::Autoderef,
		"Autoview" => ReferenceStep::Autoview,
		other => panic!("unknown step {other}"),
	}
}

// ---- mutpass-eval: the mutability pass on one reference with given declarations ------------------------------------
//   use <map id:mut,..|-> <base id|-> <mutated 0|1>
//   assign <map> <base|-> <address depth> <step>*        (Statement::Assignment)
//   address <map> <base|-> <address depth> <step>*       (Expression::Deref)
//   length <map> <base|-> <address depth> <step>*        (Expression::LengthOfArray)
pub fn run_mutpass()
{
	use penne::alpha::analyzer::verif_mutability_hooks as h;
	use penne::alpha::error::{Error, Poison};
	let stdin = std::io::stdin();
	for line in stdin.lock().lines()
	{
		let line = line.unwrap();
		let w: Vec<String> = line.split(' ').filter(|x| !x.is_empty()).map(|x| x.to_string()).collect();
		let r = std::panic::catch_unwind(move || {
			let declared: Vec<(u32, bool)> = if w[1] == "-" { Vec::new() } else {
				w[1].split(',').map(|e| { let f: Vec<&str> = e.split(':').collect(); (f[0].parse().unwrap(), f[1] == "1") }).collect()
			};
			let base: Result<Identifier, Poison> = if w[2] == "-" { Err(Poison::Poisoned) } else { Ok(id(w[2].parse().unwrap())) };
			let verdict = |p: &Poison| match p
			{
				Poison::Error(Error::NotMutable { .. }) => "err530".to_string(),
				Poison::Error(e) => format!("err{}", e.code()),
				Poison::Poisoned => "poisoned".to_string(),
			};
			match w[0].as_str()
			{
				// wrap <map> <base> <Variant:field>: the address of <base> (a Deref with address depth 1) as the named child of
				// an expression of that variant; answers whether the E530 of the child surfaces
				"wrap" =>
				{
					let child = Expression::Deref {
						reference: Reference {
							base,
							steps: Vec::new(),
							address_depth: 1,
							location: loc(),
							location_of_unaddressed: loc(),
						},
						deref_type: None,
					};
					let lit = || Expression::BooleanLiteral { value: true, location: loc() };
					let int32 = penne::alpha::value_type::ValueType::Int32;
					let e = match w[3].as_str()
					{
						"Binary:left" => Expression::Binary { op: BinaryOp::Add, left: Box::new(child), right: Box::new(lit()), location: loc(), location_of_op: loc() },
						"Binary:right" => Expression::Binary { op: BinaryOp::Add, left: Box::new(lit()), right: Box::new(child), location: loc(), location_of_op: loc() },
						"Unary:expression" => Expression::Unary { op: UnaryOp::Negative, expression: Box::new(child), location: loc(), location_of_op: loc() },
						"Parenthesized:inner" => Expression::Parenthesized { inner: Box::new(child), location: loc() },
						"Autocoerce:expression" => Expression::Autocoerce { expression: Box::new(child), coerced_type: int32 },
						"BitCast:expression" => Expression::BitCast { expression: Box::new(child), coerced_type: None, location: loc(), location_of_keyword: loc() },
						"TypeCast:expression" => Expression::TypeCast { expression: Box::new(child), coerced_type: int32, location: loc(), location_of_type: loc() },
						"FunctionCall:arguments" => Expression::FunctionCall { name: id(20), builtin: None, arguments: vec![child], return_type: None },
						"ArrayLiteral:array" => Expression::ArrayLiteral { array: Array { elements: vec![child], location: loc(), resolution_id: 21 }, element_type: None },
						"Structural:members" => Expression::Structural {
							members: vec![MemberExpression { name: Ok(id(22)), offset: None, expression: child }],
							structural_type: Ok(int32),
							location: loc(),
						},
						other => panic!("unknown wrapper {other}"),
					};
					let out = format!("{:?}", h::analyze_expression(&declared, e));
					if out.contains("NotMutable") { "err530".to_string() } else { "ok".to_string() }
				}
				"use" => match h::use_variable(&declared, &base, w[3] == "1")
				{
					Ok(()) => "ok".to_string(),
					Err(p) => verdict(&p),
				},
				kind =>
				{
					let reference = Reference {
						base,
						steps: w[4..].iter().map(|x| step(x)).collect(),
						address_depth: w[3].parse().unwrap(),
						location: loc(),
						location_of_unaddressed: loc(),
					};
					if kind == "assign"
					{
						let statement = Statement::Assignment {
							reference,
							value: Expression::BooleanLiteral { value: true, location: loc() },
							location: loc(),
						};
						match h::analyze_statement(&declared, statement)
						{
							Statement::Assignment { .. } => "ok".to_string(),
							Statement::Poison(p) => verdict(&p),
							_ => "other".to_string(),
						}
					}
					else if kind == "length"
					{
						let expression = Expression::LengthOfArray { reference, location: loc() };
						match h::analyze_expression(&declared, expression)
						{
							Expression::LengthOfArray { .. } => "ok".to_string(),
							Expression::Poison(p) => verdict(&p),
							_ => "other".to_string(),
						}
					}
					else
					{
						let expression = Expression::Deref { reference, deref_type: None };
						match h::analyze_expression(&declared, expression)
						{
							Expression::Deref { .. } => "ok".to_string(),
							Expression::Poison(p) => verdict(&p),
							_ => "other".to_string(),
						}
					}
				}
			}
		});
		match r
		{
			Ok(s) => println!("{}", s),
			Err(_) => println!("PANIC"),
		}
	}
}

// ---- fcall-eval: the function call pass (E531-E533) on small expressions ------------------------------------------
//   copy <flag 0|1> <class>          Deref of a whole value of that type class, analysed with the flag given
//   arg <class>                      print!(<Deref>) as a statement: the aggregate is an immediate function argument
//   aftercall <class>                print!(true) == <Deref>: the aggregate follows a call inside one expression
//   assign <class>                   x = <Deref>
pub fn run_fcall()
{
	use penne::alpha::analyzer::verif_function_call_hooks as h;
	use penne::alpha::value_type::ValueType;
	let stdin = std::io::stdin();
	for line in stdin.lock().lines()
	{
		let line = line.unwrap();
		let w: Vec<String> = line.split(' ').filter(|x| !x.is_empty()).map(|x| x.to_string()).collect();
		let r = std::panic::catch_unwind(move || {
			let class = w.last().unwrap().as_str();
			let int = || Box::new(ValueType::Int32);
			let deref_type = match class
			{
				"array" => Some(Ok(ValueType::Array { element_type: int(), length: 4 })),
				"endless" => Some(Ok(ValueType::EndlessArray { element_type: int() })),
				"slice" => Some(Ok(ValueType::Slice { element_type: int() })),
				"slicepointer" => Some(Ok(ValueType::SlicePointer { element_type: int() })),
				"arraylike" => Some(Ok(ValueType::Arraylike { element_type: int() })),
				"struct" => Some(Ok(ValueType::Struct { identifier: id(30) })),
				"int" => Some(Ok(ValueType::Int32)),
				"pointer" => Some(Ok(ValueType::Pointer { deref_type: int() })),
				_ => None,
			};
			let deref = Expression::Deref {
				reference: Reference { base: Ok(id(3)), steps: Vec::new(), address_depth: 0, location: loc(), location_of_unaddressed: loc() },
				deref_type,
			};
			let lit = || Expression::BooleanLiteral { value: true, location: loc() };
			let call = |arguments: Vec<Expression>| Expression::FunctionCall { name: id(31), builtin: Some(Builtin::Print), arguments, return_type: None };
			let (out, flag) = match w[0].as_str()
			{
				"copy" => { let (e, f) = h::analyze_expression(w[1] == "1", deref); (format!("{:?}", e), f) }
				"aftercall" =>
				{
					let e = Expression::Binary { op: BinaryOp::Add, left: Box::new(Expression::Parenthesized { inner: Box::new(call(vec![lit()])), location: loc() }), right: Box::new(lit()), location: loc(), location_of_op: loc() };
					let _ = e;
					let e = Expression::Structural {
						members: vec![
							MemberExpression { name: Ok(id(32)), offset: None, expression: call(vec![lit()]) },
							MemberExpression { name: Ok(id(33)), offset: None, expression: deref },
						],
						structural_type: Ok(ValueType::Struct { identifier: id(34) }),
						location: loc(),
					};
					let (e, f) = h::analyze_expression(false, e);
					(format!("{:?}", e), f)
				}
				"arg" =>
				{
					let s = Statement::MethodCall { name: id(31), builtin: Some(Builtin::Print), arguments: vec![deref] };
					let (s, f) = h::analyze_statement(s);
					(format!("{:?}", s), f)
				}
				"assign" =>
				{
					let s = Statement::Assignment {
						reference: Reference { base: Ok(id(4)), steps: Vec::new(), address_depth: 0, location: loc(), location_of_unaddressed: loc() },
						value: deref,
						location: loc(),
					};
					let (s, f) = h::analyze_statement(s);
					(format!("{:?}", s), f)
				}
				other => panic!("unknown request {other}"),
			};
			let verdict = if out.contains("CannotCopyArray") { "err531" } else if out.contains("CannotCopySlice") { "err532" }
				else if out.contains("CannotCopyStruct") { "err533" } else { "ok" };
			format!("{} {}", verdict, if flag { 1 } else { 0 })
		});
		match r
		{
			Ok(s) => println!("{}", s),
			Err(_) => println!("PANIC"),
		}
	}
}

// ---- keyoffset-eval: import path resolution ----------------------------------------------------------------------
//   <filename> <path of includer> <key>*      paths as written, `-` for the empty path; answers the index or `none`
pub fn run_keyoffset()
{
	let stdin = std::io::stdin();
	for line in stdin.lock().lines()
	{
		let line = line.unwrap();
		let w: Vec<String> = line.split(' ').filter(|x| !x.is_empty()).map(|x| if x == "-" { String::new() } else { x.to_string() }).collect();
		let r = std::panic::catch_unwind(move || {
			let keys: Vec<std::path::PathBuf> = w[2..].iter().map(|x| std::path::PathBuf::from(x)).collect();
			penne::alpha::expander::verif_hooks::get_key_offset(&w[0], &keys, std::path::Path::new(&w[1]))
		});
		match r
		{
			Ok(Some(i)) => println!("{}", i),
			Ok(None) => println!("none"),
			Err(_) => println!("PANIC"),
		}
	}
}

pub fn run_mut()
{
	let stdin = std::io::stdin();
	for line in stdin.lock().lines()
	{
		let line = line.unwrap();
		let steps: Vec<ReferenceStep> =
			line.split(' ').filter(|x| !x.is_empty()).map(step).collect();
		let reference = Reference {
			base: Ok(id(9)),
			steps,
			address_depth: 0,
			location: loc(),
			location_of_unaddressed: loc(),
		};
		println!(
			"{}",
			penne::alpha::analyzer::verif_mutability_hooks::needs_outer_mutability(&reference)
		);
	}
}

// ---- syntax-eval: the syntax pass on a function body given in a small wire format -------------------------
//   stmt := D | A | M | L | G | T | P | I(stmt) | I(stmt;stmt) | B(stmt,stmt,...) | B()
//   (Declaration, Assignment, MethodCall, Loop, Goto, label (T), poisoned, if/else, block)

struct SP<'a>
{
	s: &'a [u8],
	i: usize,
}

impl<'a> SP<'a>
{
	/// An optional decimal label number after G or T (default 4).
	fn label(&mut self) -> Identifier
	{
		let mut n = 0u32;
		let mut any = false;
		while self.i < self.s.len() && self.s[self.i].is_ascii_digit()
		{
			n = n * 10 + u32::from(self.s[self.i] - b'0');
			self.i += 1;
			any = true;
		}
		let n = if any { n } else { 4 };
		Identifier {
			name: format!("label{n}"),
			location: loc(),
			resolution_id: 0,
			is_authoritative: false,
		}
	}

	fn stmt(&mut self) -> Statement
	{
		let c = self.s[self.i];
		self.i += 1;
		match c
		{
			b'D' => Statement::Declaration {
				name: id(1),
				value: None,
				value_type: None,
				location: loc(),
			},
			b'A' => Statement::Assignment {
				reference: Reference {
					base: Ok(id(2)),
					steps: Vec::new(),
					address_depth: 0,
					location: loc(),
					location_of_unaddressed: loc(),
				},
				value: Expression::BooleanLiteral {
					value: true,
					location: loc(),
				},
				location: loc(),
			},
			b'M' => Statement::MethodCall {
				name: id(3),
				builtin: None,
				arguments: Vec::new(),
			},
			b'L' => Statement::Loop { location: loc() },
			b'G' => Statement::Goto {
				label: self.label(),
				location: loc(),
			},
			b'T' => Statement::Label {
				label: self.label(),
				location: loc(),
			},
			b'P' => Statement::Poison(Poison::Poisoned),
			b'I' =>
			{
				assert_eq!(self.s[self.i], b'(');
				self.i += 1;
				let then_branch = Box::new(self.stmt());
				let else_branch = if self.s[self.i] == b';'
				{
					self.i += 1;
					Some(Else {
						branch: Box::new(self.stmt()),
						location_of_else: loc(),
					})
				}
				else
				{
					None
				};
				assert_eq!(self.s[self.i], b')');
				self.i += 1;
				Statement::If {
					condition: Comparison {
						op: ComparisonOp::Equals,
						left: Expression::BooleanLiteral {
							value: true,
							location: loc(),
						},
						right: Expression::BooleanLiteral {
							value: true,
							location: loc(),
						},
						location: loc(),
						location_of_op: loc(),
					},
					then_branch,
					else_branch,
					location: loc(),
				}
			}
			b'B' =>
			{
				assert_eq!(self.s[self.i], b'(');
				self.i += 1;
				let mut statements = Vec::new();
				while self.s[self.i] != b')'
				{
					statements.push(self.stmt());
					if self.s[self.i] == b','
					{
						self.i += 1;
					}
				}
				self.i += 1;
				Statement::Block(Block {
					statements,
					location: loc(),
				})
			}
			other => panic!("unknown statement {}", other as char),
		}
	}
}

fn show_stmt(s: &Statement) -> String
{
	match s
	{
		Statement::Declaration { .. } => "D".to_string(),
		Statement::Assignment { .. } => "A".to_string(),
		Statement::MethodCall { .. } => "M".to_string(),
		Statement::Loop { .. } => "L".to_string(),
		Statement::Goto { .. } => "G".to_string(),
		Statement::Label { .. } => "T".to_string(),
		Statement::Poison(Poison::Poisoned) => "P".to_string(),
		Statement::Poison(Poison::Error(e)) => format!("E{}", e.code()),
		Statement::If {
			then_branch,
			else_branch,
			..
		} => match else_branch
		{
			Some(e) => format!("I({};{})", show_stmt(then_branch), show_stmt(&e.branch)),
			None => format!("I({})", show_stmt(then_branch)),
		},
		Statement::Block(b) =>
		{
			let parts: Vec<String> = b.statements.iter().map(show_stmt).collect();
			format!("B({})", parts.join(","))
		}
	}
}

pub fn run_syntax()
{
	let stdin = std::io::stdin();
	for line in stdin.lock().lines()
	{
		let line = line.unwrap();
		let mut statements = Vec::new();
		for part in line.split(' ').filter(|x| !x.is_empty())
		{
			statements.push(SP { s: part.as_bytes(), i: 0 }.stmt());
		}
		let decl = Declaration::Function {
			name: id(10),
			parameters: Vec::new(),
			body: Ok(FunctionBody {
				statements,
				return_value: None,
				return_value_identifier: id(11),
			}),
			return_type: Ok(penne::alpha::value_type::ValueType::Void),
			flags: EnumSet::new(),
			location_of_declaration: loc(),
			location_of_return_type: loc(),
		};
		let out = penne::alpha::analyzer::verif_syntax_analyze(decl);
		match out
		{
			Declaration::Function { body: Ok(body), .. } =>
			{
				let parts: Vec<String> = body.statements.iter().map(show_stmt).collect();
				println!("{}", parts.join(" "));
			}
			_ => println!("?"),
		}
	}
}

/// lint-tree-eval: the linter on a function body in the same wire format; prints the lint codes.
pub fn run_lint_tree()
{
	let stdin = std::io::stdin();
	for line in stdin.lock().lines()
	{
		let line = line.unwrap();
		let mut statements = Vec::new();
		for part in line.split(' ').filter(|x| !x.is_empty())
		{
			statements.push(SP { s: part.as_bytes(), i: 0 }.stmt());
		}
		let decl = Declaration::Function {
			name: id(10),
			parameters: Vec::new(),
			body: Ok(FunctionBody {
				statements,
				return_value: None,
				return_value_identifier: id(11),
			}),
			return_type: Ok(penne::alpha::value_type::ValueType::Void),
			flags: EnumSet::new(),
			location_of_declaration: loc(),
			location_of_return_type: loc(),
		};
		let mut linter = penne::alpha::linter::Linter::default();
		linter.lint(&decl);
		let lints: Vec<penne::alpha::linter::Lint> = linter.into();
		let codes: Vec<u16> = lints.iter().map(|l| l.code()).collect();
		println!("{:?}", codes);
	}
}


/// label-eval: the label scoping pass on a function body; labels are written T<n>, gotos G<n>.
pub fn run_labels()
{
	let stdin = std::io::stdin();
	for line in stdin.lock().lines()
	{
		let line = line.unwrap();
		let mut statements = Vec::new();
		for part in line.split(' ').filter(|x| !x.is_empty())
		{
			statements.push(SP { s: part.as_bytes(), i: 0 }.stmt());
		}
		let decl = Declaration::Function {
			name: id(10),
			parameters: Vec::new(),
			body: Ok(FunctionBody {
				statements,
				return_value: None,
				return_value_identifier: id(11),
			}),
			return_type: Ok(penne::alpha::value_type::ValueType::Void),
			flags: EnumSet::new(),
			location_of_declaration: loc(),
			location_of_return_type: loc(),
		};
		let out = match std::panic::catch_unwind(move || penne::alpha::scoper::verif_label_analyze(vec![decl]))
		{
			Ok(out) => out,
			Err(_) =>
			{
				println!("PANIC");
				continue;
			}
		};
		match out.into_iter().next()
		{
			Some(Declaration::Function { body: Ok(body), .. }) =>
			{
				let parts: Vec<String> = body.statements.iter().map(show_stmt).collect();
				println!("{}", parts.join(" "));
			}
			_ => println!("?"),
		}
	}
}
