//! Runs the real second-generation lexer and the reference lexer on inputs and prints, per input,
//! either "same" or the first difference.  Inputs: files given as arguments, or with `--hex`,
//! one hex-encoded byte string per stdin line.  With `--dump` the real lexer's tokens are printed.

use crate::reflex;
use penne::delta::lexer;
use std::io::BufRead;

pub struct Obs
{
	pub kinds: Vec<u8>,
	pub vts: Vec<u8>,
	pub payloads: Vec<Option<u128>>,
	pub spans: Vec<(usize, usize)>,
	pub lines: Vec<(usize, usize)>,
	pub error_codes: Vec<u16>,
}

pub fn observe(src: &[u8]) -> Obs
{
	let tokens = lexer::lex(src, "input.pn");
	let n = tokens.base_tokens().len();
	let mut o = Obs {
		kinds: Vec::new(),
		vts: Vec::new(),
		payloads: Vec::new(),
		spans: Vec::new(),
		lines: Vec::new(),
		error_codes: Vec::new(),
	};
	let mut id = tokens.first_token_id();
	for k in 0..n
	{
		let bt = tokens.get(id);
		o.kinds.push(bt as u8);
		let vap = tokens.get_value_type_and_payload(id);
		o.vts.push(vap.value_type() as u8);
		o.payloads.push(tokens.get_integer_payload(vap.payload_id()));
		let loc = tokens.get_location(id);
		o.spans.push((loc.span.start, loc.span.end));
		o.lines.push((loc.line_number, loc.line_offset));
		if k + 1 < n
		{
			tokens.advance(&mut id);
		}
	}
	if let Some(errors) = tokens.errors()
	{
		o.error_codes = errors.codes();
	}
	o
}

fn code_of(kind: u8) -> u16
{
	match kind
	{
		3 => 110,
		4 => 140,
		5 => 141,
		6 => 162,
		7 => 161,
		8 => 160,
		9 => 163,
		_ => 0,
	}
}

pub fn diff(src: &[u8]) -> Option<String>
{
	let r = reflex::lex(src);
	if r.full
	{
		return Some("skip: more tokens than the reference holds".to_string());
	}
	let o = observe(src);
	if o.kinds.len() != r.ntok
	{
		return Some(format!("token count: real {} reference {}", o.kinds.len(), r.ntok));
	}
	for k in 0..r.ntok
	{
		let t = &r.toks[k];
		if o.kinds[k] != t.kind
		{
			return Some(format!("token {k}: kind real {} reference {}", o.kinds[k], t.kind));
		}
		if o.vts[k] != t.vt
		{
			return Some(format!("token {k}: value type real {} reference {}", o.vts[k], t.vt));
		}
		let p = if t.has_payload { Some(t.payload) } else { None };
		if o.payloads[k] != p
		{
			return Some(format!("token {k}: payload real {:?} reference {:?}", o.payloads[k], p));
		}
		if o.spans[k] != (t.start as usize, t.end as usize)
		{
			return Some(format!("token {k}: span real {:?} reference {:?}", o.spans[k], (t.start, t.end)));
		}
		let lr = (t.line as usize, (t.start - t.line_start) as usize);
		if o.lines[k] != lr
		{
			return Some(format!("token {k}: line/offset real {:?} reference {:?}", o.lines[k], lr));
		}
	}
	let mut rc: Vec<u16> = (0..r.nerr).map(|i| code_of(r.errs[i].kind)).collect();
	// Errors::codes() is in order of appearance for a single file
	let mut oc = o.error_codes.clone();
	rc.sort();
	oc.sort();
	if rc != oc
	{
		return Some(format!("error codes: real {:?} reference {:?}", oc, rc));
	}
	None
}

pub fn run(args: &[String])
{
	if args.first().map(|x| x.as_str()) == Some("--hex")
	{
		let stdin = std::io::stdin();
		for line in stdin.lock().lines()
		{
			let line = line.unwrap();
			let bytes: Vec<u8> = (0..line.len() / 2)
				.map(|i| u8::from_str_radix(&line[2 * i..2 * i + 2], 16).unwrap())
				.collect();
			let res = std::panic::catch_unwind(|| diff(&bytes));
			match res
			{
				Ok(None) => println!("same"),
				Ok(Some(d)) => println!("DIFF {d}"),
				Err(_) => println!("PANIC"),
			}
		}
		return;
	}
	if args.first().map(|x| x.as_str()) == Some("--dump")
	{
		let bytes = std::fs::read(&args[1]).unwrap();
		let o = observe(&bytes);
		for k in 0..o.kinds.len()
		{
			println!("{} {} {:?} {:?} {:?}", o.kinds[k], o.vts[k], o.payloads[k], o.spans[k], o.lines[k]);
		}
		println!("errors {:?}", o.error_codes);
		return;
	}
	// files: windows of the file are lexed so that the reference's token capacity suffices
	for f in args
	{
		let bytes = std::fs::read(f).unwrap();
		let mut ndiff = 0;
		let mut nwin = 0;
		let mut i = 0;
		while i < bytes.len()
		{
			let mut j = (i + 24).min(bytes.len());
			// do not cut inside a line when avoidable
			while j < bytes.len() && j < i + 40 && bytes[j - 1] != b'\n' { j += 1; }
			let w = &bytes[i..j];
			nwin += 1;
			match diff(w)
			{
				None => {}
				Some(d) if d.starts_with("skip") => {}
				Some(d) =>
				{
					ndiff += 1;
					println!("DIFF {f} window {i}..{j} {:?}: {d}", String::from_utf8_lossy(w));
				}
			}
			i = j;
		}
		println!("{f}: {nwin} windows, {ndiff} differences");
	}
}

/// Canonical one-line observations of both lexers for the translation validation of the encodings.
pub fn run_obs()
{
	let stdin = std::io::stdin();
	for line in stdin.lock().lines()
	{
		let line = line.unwrap();
		let bytes: Vec<u8> = (0..line.len() / 2)
			.map(|i| u8::from_str_radix(&line[2 * i..2 * i + 2], 16).unwrap())
			.collect();
		let o = match std::panic::catch_unwind(|| observe(&bytes))
		{
			Ok(o) => o,
			Err(_) =>
			{
				println!("REAL PANIC");
				println!("REF skipped");
				continue;
			}
		};
		let mut s = format!("REAL {}", o.kinds.len());
		for k in 0..o.kinds.len()
		{
			let p = match o.payloads[k] { Some(p) => format!("{p}"), None => "none".to_string() };
			s += &format!(" {}:{}:{}:{}:{}:{}:{}", o.kinds[k], o.vts[k], p, o.spans[k].0, o.spans[k].1, o.lines[k].0, o.lines[k].1);
		}
		s += &format!(" E{:?}", o.error_codes);
		println!("{s}");
		let r = reflex::lex(&bytes);
		let mut s = format!("REF {}", r.ntok);
		for k in 0..r.ntok
		{
			let t = &r.toks[k];
			let p = if t.has_payload { format!("{}", t.payload) } else { "none".to_string() };
			s += &format!(" {}:{}:{}:{}:{}:{}:{}", t.kind, t.vt, p, t.start, t.end, t.line, t.start - t.line_start);
		}
		let codes: Vec<u16> = (0..r.nerr).map(|i| code_of(r.errs[i].kind)).collect();
		s += &format!(" E{:?}", codes);
		println!("{s}");
	}
}
