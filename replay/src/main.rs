//! Native re-execution of solver results against the real crate (no hooks, no features).
//! Generated parts live in src/gen/ and are rewritten from /repo's current source by the checks.

mod generated;
#[path = "../../reflex/src/lib.rs"]
mod reflex;
mod lexdiff;
mod ast_eval;

fn main()
{
	let args: Vec<String> = std::env::args().collect();
	match args.get(1).map(|x| x.as_str())
	{
		Some("error-codes") => generated::error_codes::run(),
		Some("value-types") => generated::value_types::run(&args[2..]),
		Some("resolver-eval") => generated::value_types::run_resolver(),
		Some("lint-eval") => generated::value_types::run_lint(),
		Some("call-eval") => generated::value_types::run_call(),
		Some("container-eval") => generated::value_types::run_containers(),
		Some("typer-eval") => generated::value_types::run_typer(),
		Some("lexdiff") => lexdiff::run(&args[2..]),
		Some("lexobs") => lexdiff::run_obs(),
		Some("export-eval") => ast_eval::run_export(),
		Some("mut-eval") => ast_eval::run_mut(),
		Some("mutpass-eval") => ast_eval::run_mutpass(),
		Some("fcall-eval") => ast_eval::run_fcall(),
		Some("keyoffset-eval") => ast_eval::run_keyoffset(),
		Some("syntax-eval") => ast_eval::run_syntax(),
		Some("lint-tree-eval") => ast_eval::run_lint_tree(),
		Some("label-eval") => ast_eval::run_labels(),
		_ =>
		{
			eprintln!("usage: pv_replay <error-codes|value-types|lexdiff>");
			std::process::exit(2);
		}
	}
}
