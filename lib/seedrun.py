#!/usr/bin/env python3
"""Run registered checks against seeded changes, in a scratch worktree (never in /repo).
usage: seedrun.py <worktree> <seed-id>[,<seed-id>...] <CHECK>[,<CHECK>...] [tier]
Appends one JSON line per (seed, check) to /verif/seeded/results.jsonl."""
import json, os, subprocess, sys, time
V = os.path.dirname(os.path.dirname(os.path.abspath(__file__)))
wt, seeds, checks = sys.argv[1], sys.argv[2].split(','), sys.argv[3].split(',')
tier = sys.argv[4] if len(sys.argv) > 4 else 'quick'
for sd in seeds:
    subprocess.run(['git', 'checkout', '-q', '--', '.'], cwd=wt, check=True)
    r = subprocess.run(['git', 'apply', os.path.join(V, 'seeded', sd, 'patch.diff')], cwd=wt)
    if r.returncode != 0:
        print(sd, 'patch does not apply'); continue
    for c in checks:
        t = time.time()
        p = subprocess.run([os.path.join(V, 'check'), c, '--tier', tier], cwd=V, env=dict(os.environ, VERIF_REPO=wt),
                           stdout=subprocess.PIPE, stderr=subprocess.STDOUT, text=True)
        lines = [l for l in p.stdout.split('\n') if l.startswith(('VIOLATION', 'INCONCLUSIVE', 'KNOWN-FINDING')) or l.startswith('  ')]
        rec = {'seed': sd, 'check': c, 'tier': tier, 'rc': p.returncode, 'seconds': round(time.time() - t, 1), 'lines': lines[:6]}
        print(json.dumps(rec), flush=True)
        with open(os.path.join(V, 'seeded', 'results.jsonl'), 'a') as f:
            f.write(json.dumps(rec) + '\n')
    subprocess.run(['git', 'checkout', '-q', '--', '.'], cwd=wt, check=True)
