#!/bin/bash
# confirm_seed.sh <seed-dir> <worktree> : independent confirmation of a seeded change in a scratch worktree
# prints a JSON-ish summary line; exit 0 if the seed satisfies all requirements.
set -u
seed="$1"; wt="$2"
cd "$wt" || exit 2
git checkout -q -- . ; git clean -fdq tests src docs 2>/dev/null
name=$(basename "$seed")
log="/tmp/confirm-$name.log"; : > "$log"
export CARGO_NET_OFFLINE=true
git apply "$seed/patch.diff" >>"$log" 2>&1 || { echo "$name: patch does not apply"; exit 1; }
cargo build --offline >>"$log" 2>&1 || { echo "$name: does not build"; git checkout -q -- .; exit 1; }
cargo nextest run --workspace --no-fail-fast --offline --test-threads 8 --status-level all --color never > "$log.nextest" 2>&1
missing=$(python3 - "$log.nextest" <<'PY'
import re,sys,json
passed=set()
for line in open(sys.argv[1]):
    m=re.match(r"\s*PASS\s+\[[^\]]*\]\s+(?:\(\S+\)\s+)?(\S+)\s+(\S+)", line)
    if m: passed.add(f"{m.group(1)}::{m.group(2)}")
want=set(json.load(open("/root/.vp/BASELINE.json"))["stable_pass"])
print(len(want-passed))
PY
)
cp "$seed/demo.rs" tests/zz_seed_demo.rs
cargo test --offline --test zz_seed_demo > "$log.demo_mut" 2>&1; rc_mut=$?
git checkout -q -- . 
cp "$seed/demo.rs" tests/zz_seed_demo.rs
cargo test --offline --test zz_seed_demo > "$log.demo_clean" 2>&1; rc_clean=$?
rm -f tests/zz_seed_demo.rs; git checkout -q -- .; git clean -fdq tests 2>/dev/null
echo "$name: baseline_missing=$missing demo_with_mutant_rc=$rc_mut demo_clean_rc=$rc_clean"
[ "$missing" = "0" ] && [ "$rc_mut" != "0" ] && [ "$rc_clean" = "0" ]
