#!/usr/bin/env python3
"""Run /repo's pinned test suite with the verification guard OFF and compare
the set of passing tests with /root/.vp/BASELINE.json (stable_pass)."""
import json, re, subprocess, sys, os
env = dict(os.environ, CARGO_NET_OFFLINE="true")
p = subprocess.run(
    ["cargo", "nextest", "run", "--workspace", "--no-fail-fast", "--offline",
     "--test-threads", "8", "--status-level", "all", "--color", "never"],
    cwd="/repo", env=env, stdout=subprocess.PIPE, stderr=subprocess.STDOUT, text=True)
passed = set()
for line in p.stdout.splitlines():
    m = re.match(r"\s*PASS\s+\[[^\]]*\]\s+(?:\(\S+\)\s+)?(\S+)\s+(\S+)", line)
    if m:
        passed.add(f"{m.group(1)}::{m.group(2)}")
want = set(json.load(open("/root/.vp/BASELINE.json"))["stable_pass"])
missing = sorted(want - passed)
print(f"baseline: {len(want)} expected, {len(want & passed)} passed, {len(missing)} missing")
for m in missing:
    print("MISSING", m)
sys.exit(1 if missing else 0)
