"""Shared plumbing for the checks: MIR dump, evidence files, known findings, solver cross-check."""
import hashlib
import json
import os
import re
import subprocess
import sys
import time

VERIF = os.path.dirname(os.path.dirname(os.path.abspath(__file__)))
REPO = os.environ.get('VERIF_REPO', '/repo')
TARGET = os.path.join(VERIF, '.target')
sys.path.insert(0, os.path.join(VERIF, 'mir'))
sys.path.insert(0, os.path.join(VERIF, 'lib'))


class Inconclusive(Exception):
    """The check could not reach a verdict (exit 2)."""


def log(*a):
    print(*a, flush=True)


def seed():
    try:
        return int(os.environ.get('VERIF_SEED', '0'))
    except ValueError:
        return 0


def src_hash():
    h = hashlib.sha256()
    for root in ('src', 'docs', 'tests', 'examples', 'core', 'vendor'):
        base = os.path.join(REPO, root)
        for dp, dn, fn in sorted(os.walk(base)):
            dn.sort()
            for f in sorted(fn):
                p = os.path.join(dp, f)
                h.update(p.encode())
                try:
                    h.update(open(p, 'rb').read())
                except OSError:
                    pass
    for f in ('Cargo.toml', 'Cargo.lock'):
        h.update(open(os.path.join(REPO, f), 'rb').read())
    return h.hexdigest()[:16]


def mir_dump(features=''):
    """Dump the MIR of /repo's lib crate (dev profile: debug assertions and overflow checks on).
    The dump is keyed by a hash of the working tree, so an edited tree is always re-dumped.  Concurrent callers
    (parallel template workers) are serialised with a file lock."""
    import fcntl
    os.makedirs(TARGET, exist_ok=True)
    suffix = 'v2' + (hashlib.sha256(REPO.encode()).hexdigest()[:6] if REPO != '/repo' else '') + \
        ('-' + features.replace(',', '_') if features else '')
    out = os.path.join(TARGET, 'mir-%s%s.txt' % (src_hash(), suffix))
    if os.path.exists(out) and os.path.getsize(out) > 1000000:
        return out, 0.0
    with open(os.path.join(TARGET, '.mir-lock'), 'w') as lock:
        fcntl.flock(lock, fcntl.LOCK_EX)
        if os.path.exists(out) and os.path.getsize(out) > 1000000:
            return out, 0.0
        # dumps of the same kind for an older tree are stale
        for f in os.listdir(TARGET):
            if f.startswith('mir-') and f.endswith(suffix + '.txt') and len(f) == len(os.path.basename(out)):
                try:
                    os.remove(os.path.join(TARGET, f))
                except OSError:
                    pass
        t = time.time()
        mir_target = os.path.join(TARGET, 'mir' if REPO == '/repo' else 'mir-' + hashlib.sha256(REPO.encode()).hexdigest()[:6])
        env = dict(os.environ, CARGO_NET_OFFLINE='true', CARGO_TARGET_DIR=mir_target)
        # cargo does not re-run rustc when nothing changed, and then prints no MIR: force it
        fp = os.path.join(mir_target, 'debug', '.fingerprint')
        if os.path.isdir(fp):
            import shutil
            for d in os.listdir(fp):
                if d.startswith('penne-'):
                    shutil.rmtree(os.path.join(fp, d), ignore_errors=True)
        cmd = ['cargo', '+nightly', 'rustc', '--offline', '--lib']
        if features:
            cmd += ['--features', features]
        # the alignment/null/enum UB-check passes only add instrumentation blocks; they are not semantics
        cmd += ['--', '-Zunpretty=mir', '-Zmir-enable-passes=-CheckAlignment,-CheckNull,-CheckEnums']
        tmp = '%s.%d.tmp' % (out, os.getpid())
        with open(tmp, 'w') as fo:
            p = subprocess.run(cmd, cwd=REPO, env=env, stdout=fo, stderr=subprocess.PIPE, text=True)
        if p.returncode != 0 or os.path.getsize(tmp) < 1000000:
            sys.stderr.write(p.stderr[-3000:])
            try:
                os.remove(tmp)
            except OSError:
                pass
            raise Inconclusive('MIR dump failed (does /repo still compile?)')
        os.rename(tmp, out)
        return out, time.time() - t


# ------------------------------------------------------------------------------ known findings
def load_findings():
    p = os.path.join(VERIF, 'known_findings.json')
    if not os.path.exists(p):
        return []
    return json.load(open(p)).get('findings', [])


def known_keys(prop):
    return {f['key']: f for f in load_findings() if f['property'] == prop and f.get('status') == 'known'}


# ------------------------------------------------------------------------------ evidence
def write_evidence(prop, tier, level, coverage, wall_s, assumptions, violations=0):
    evdir = os.path.join(VERIF, 'evidence') if REPO == '/repo' else os.path.join(TARGET, 'evidence-scratch')
    os.makedirs(evdir, exist_ok=True)
    ev = {
        'property_id': prop,
        'tier': tier,
        'seed': seed(),
        'level': level,
        'coverage': coverage,
        'assumptions': assumptions,
        'wall_s': round(wall_s, 2),
        'violations': violations,
    }
    p = os.path.join(evdir, prop + '.json')
    with open(p + '.tmp', 'w') as f:
        json.dump(ev, f, indent=1, default=str)
    os.rename(p + '.tmp', p)
    return p


def write_replay(prop, name, payload):
    d = os.path.join(VERIF, 'replays') if REPO == '/repo' else os.path.join(TARGET, 'replays-scratch')
    os.makedirs(d, exist_ok=True)
    p = os.path.join(d, '%s-%s.json' % (prop, re.sub(r'[^A-Za-z0-9_.-]', '_', name)[:80]))
    with open(p, 'w') as f:
        json.dump(payload, f, indent=1, default=str)
    return p


# ------------------------------------------------------------------------------ solver cross-check
def cross_check_smt2(smt2_text, expect, timeout_s=60):
    """Run an SMT-LIB2 script through /usr/bin/z3 (4.8.12) and cvc5; compare with `expect`
    ('sat'/'unsat').  Returns dict solver -> (answer, seconds).  `unknown`/timeouts are reported,
    an opposite answer raises Inconclusive."""
    res = {}
    for name, cmd in (('z3-4.8.12', ['/usr/bin/z3', '-in', '-T:%d' % timeout_s]),
                      ('cvc5-1.0.3', ['cvc5', '--lang', 'smt2', '--tlimit=%d' % (timeout_s * 1000)])):
        t = time.time()
        try:
            p = subprocess.run(cmd, input=smt2_text, stdout=subprocess.PIPE, stderr=subprocess.STDOUT,
                               text=True, timeout=timeout_s + 10)
            out = p.stdout.strip()
        except subprocess.TimeoutExpired:
            out = 'timeout'
        dt = time.time() - t
        if '(error' in out:
            ans = 'error'
        else:
            lines = [l for l in out.split('\n') if l.strip()]
            ans = lines[0] if lines else 'none'
        res[name] = (ans, round(dt, 3))
        if ans in ('sat', 'unsat') and ans != expect:
            raise Inconclusive('solver disagreement: %s says %s, z3 (python) says %s' % (name, ans, expect))
    return res


def reflex_dump():
    """MIR of the reference lexer crate (/verif/reflex), same rustc flags as the repository dump."""
    os.makedirs(TARGET, exist_ok=True)
    src = open(os.path.join(VERIF, 'reflex', 'src', 'lib.rs'), 'rb').read()
    key = hashlib.sha256(src).hexdigest()[:16]
    out = os.path.join(TARGET, 'reflex-mir-%s.txt' % key)
    if os.path.exists(out) and os.path.getsize(out) > 10000:
        return out
    import fcntl
    lock = open(os.path.join(TARGET, '.mir-lock'), 'w')
    fcntl.flock(lock, fcntl.LOCK_EX)
    if os.path.exists(out) and os.path.getsize(out) > 10000:
        return out
    env = dict(os.environ, CARGO_NET_OFFLINE='true', CARGO_TARGET_DIR=os.path.join(TARGET, 'reflex'))
    fp = os.path.join(TARGET, 'reflex', 'debug', '.fingerprint')
    if os.path.isdir(fp):
        import shutil
        shutil.rmtree(fp, ignore_errors=True)
    cmd = ['cargo', '+nightly', 'rustc', '--offline', '--lib', '--', '-Zunpretty=mir',
           '-Zmir-enable-passes=-CheckAlignment,-CheckNull,-CheckEnums']
    with open(out + '.tmp', 'w') as fo:
        p = subprocess.run(cmd, cwd=os.path.join(VERIF, 'reflex'), env=env, stdout=fo, stderr=subprocess.PIPE, text=True)
    if p.returncode != 0 or os.path.getsize(out + '.tmp') < 10000:
        sys.stderr.write(p.stderr[-2000:])
        raise Inconclusive('MIR dump of the reference lexer failed')
    os.rename(out + '.tmp', out)
    return out
