#!/usr/bin/env python3
"""Write seeded/<id>/meta.json from the seed's notes.md and the recorded check outcomes (seeded/results.jsonl)."""
import json, os, re, collections
V = os.path.dirname(os.path.dirname(os.path.abspath(__file__)))
S = os.path.join(V, 'seeded')
latest = collections.OrderedDict()
for l in open(os.path.join(S, 'results.jsonl')):
    d = json.loads(l)
    latest[(d['seed'], d['check'], d['tier'])] = d
RC = {0: 'not detected (exit 0)', 1: 'detected (exit 1, VIOLATION, natively replayed)', 2: 'inconclusive (exit 2)'}
for sd in sorted(os.listdir(S)):
    d = os.path.join(S, sd)
    if not os.path.isdir(d):
        continue
    notes = open(os.path.join(d, 'notes.md')).read()
    title = re.sub(r'^#\s*', '', notes.split('\n', 1)[0]).strip()
    secs = re.split(r'(?m)^## ', notes)
    def sec(rx):
        for s in secs[1:]:
            h, _, b = s.partition('\n')
            if re.search(rx, h, re.I):
                return re.sub(r'\s+', ' ', b).strip()
        return ''
    prop = 'C' + re.match(r'c(\d+)', sd).group(1)
    files = sorted(set(re.findall(r'^\+\+\+ b/(\S+)', open(os.path.join(d, 'patch.diff')).read(), re.M)))
    checks = []
    for (s_, c_, t_), r in latest.items():
        if s_ == sd:
            checks.append({'check': c_, 'tier': t_, 'exit': r['rc'], 'outcome': RC.get(r['rc'], str(r['rc'])),
                           'first_line': (r['lines'] or [''])[0][:300]})
    detected = sorted({c['check'] for c in checks if c['exit'] == 1})
    meta = {
        'id': sd, 'breaks_property': prop, 'title': title, 'files_changed': files,
        'change': sec(r'change')[:900],
        'needs_to_manifest': sec(r'need|condition|shape')[:1400],
        'why_existing_tests_miss_it': sec(r'tests miss')[:900],
        'confirmed': {
            'how': 'lib/confirm_seed.sh in a scratch worktree of /repo (never in /repo): patch applied, crate builds, the '
                   'pinned 75-test baseline passes with the change, demo.rs (copied into tests/) fails with the change and '
                   'passes on the unchanged tree',
            'produced_by': 'a fresh sub-agent that was given only the property text and a scratch git worktree',
        },
        'checks_run': checks,
        'detected_by': detected,
        'status': 'detected' if detected else 'missed (outside what the claimed checks encode; see DESIGN.md section on seeded changes)',
    }
    json.dump(meta, open(os.path.join(d, 'meta.json'), 'w'), indent=1)
    print(sd, prop, meta['status'][:8], detected)
