#!/usr/bin/env python3
"""Writes MANIFEST.json (kept as a script so that claims, reasons and techniques stay in one place)."""
import json, os
V = os.path.dirname(os.path.dirname(os.path.abspath(__file__)))

EMIR = "symbolic execution of rustc MIR into z3 bit-vector formulas (mirsym), solver verdict over all inputs within the stated bound, cross-checked on z3 4.8.12 and cvc5, counterexamples replayed natively"

checks = {
 "C04": dict(cat="model_checking",
   text="Label scoping pass: src/alpha/scoper/label_references.rs (Analyzable for FunctionBody/Block/Statement, declare_label, use_label, push_scope, pop_scope) is symbolically executed from MIR on a symbolic function body - statement trees of depth <= 3 with up to 2 statements per body/block (thorough: depth 3 x width 3, depth 4 x width 2 and depth 5 x width 1), symbolic lengths and symbolic label names - and z3 decides that the output tree is what the rule prescribes node by node: a goto resolves iff a label of that name is later in the same block or later in an enclosing block (E400 otherwise: backward jumps, jumps into nested or sibling blocks, missing labels), a label clashing with such a later label is E420, nothing else changes; the pass never panics. The pass is entered through its own entry point label_references::analyze, so the Analyzer is the one the code constructs.",
   note="Bounded by depth and width; one function body. Inputs restricted to bodies whose if-branches are goto/block (else also if) without poisoned statements. Trusted: MIR dump, mirsym + models (owned reversed Vec iteration, nested Vec as label stack, slice::Iter::find, String equality on opaque tokens); encoding validated natively (guarded hook) on random bodies every run.",
   ref="DESIGN.md section 3, C04"),
 "C06": dict(cat="model_checking",
   text="Placement rules of the syntax pass: src/alpha/analyzer/syntax.rs (Analyzable for FunctionBody, Block, Statement and their closures) is symbolically executed from MIR on a symbolic function body - statement trees of nesting depth <= 4 (thorough 5) with up to 2 statements per body/block and symbolic lengths, all nine statement kinds, every if/else shape - and z3 decides that the output tree equals what the documented rules prescribe node by node: loop only as final statement of a braced block (E800 elsewhere in a block, E801 in a function body), if-branches goto or braced block, else also another if (E840), nothing else changes; the pass never panics.",
   note="Bounded by nesting depth and block width. Also decided: linter.rs emits exactly one L1800 per braced branch that starts with loop and no other statement lint (depth 3 x width 2, depth 4 x width 1). Outside: the generator's assumption. Trusted: MIR dump, mirsym + models for owned Vec iteration (into_iter/map/collect, pop, push), Box, Option::map; the encoding is validated natively (guarded hook) on random statement trees every run.",
   ref="DESIGN.md section 3, C06"),
 "C07": dict(cat="model_checking",
   text="Relations-and-tables clause: the eight type relations of value_type.rs that decide which operand, argument and declaration types match (identity, implicit coercions, address coercions, autoderef, declaration matching, concretization) are symbolically executed from MIR and proved equal to a reference model for every pair of types of nesting depth <= 3 (quick) / 5 (thorough), plus algebraic consequences (no relation connects distinct primitives, coercions only have the documented shapes, identity is reflexive and symmetric); resolver.rs: is_valid_primitive_conversion, is_valid_bit_cast, and for a symbolic operator the valid_types tables with analyze_operand_type (too permissive / too strict / no panic) for every operand type of depth <= 2; match_type_of_operands accepts exactly identical operand types for every pair of depth <= 2.",
   note="Bounded by type nesting depth; lengths and names unconstrained. Trusted: MIR dump, mirsym + std models (validated natively on sampled pairs every run), the reference model vtref.py. Outside: put_symbol / use_function and the typer code that applies these relations to real expressions.",
   ref="DESIGN.md section 3, C07"),
 "C08": dict(cat="model_checking",
   text="Rule-kernel clause: mutability::needs_outer_mutability is symbolically executed from MIR over a Reference whose step vector holds up to 4 (quick) / 7 (thorough) symbolic access steps with symbolic length; z3 decides that the base variable must be mutable exactly when the reference does not pass through a pointer (no autoderef step and no deslice-by-pointer), which together with the mutability bit is the E530 verdict table. Verdict clauses, each one step from an arbitrary map of 3 (4) symbolic entries: Analyzer::use_variable is E530 iff the variable is mutated and declared immutable (undeclared: silent poison; poisoned base: passes); the Assignment arm of Statement::analyze on a symbolic reference of up to 3 (5) steps is rejected with E530 iff its base is declared immutable and the reference does not pass through a pointer; the Deref arm rejects taking the address of such a variable and never a read; LengthOfArray never needs mutability; constants and parameters are recorded immutable, members mutable, local variables mutable unless their type is an array view, slice pointer or view; no other map entry changes; every arm of Expression::analyze and Statement::analyze hands each direct child to the analysis (traversal clause, 24 arms, opaque children).",
   note="Bounded by the number of steps; loop unrolled with an unwinding obligation. Outside: how the arms compose over whole function bodies (each arm is decided on its own with the analysis of its sub-expressions as havoc, justified by a call-graph check that expression analysis cannot declare variables), E531-E533, E513 (function_calls.rs), and the run-time non-interference consequence. Trusted: MIR dump, mirsym + Vec/slice-iterator models, validated natively (guarded hook) on all sequences of <= 2 steps and sampled longer ones.",
   ref="DESIGN.md section 3, C08"),
 "C12": dict(cat="model_checking",
   text="Export-step clause: expander::export / extract_public symbolically executed from MIR on a symbolic Declaration (6 kinds x flag set x opaque payload): exactly the pub constants, functions, function heads and structures are exported; functions leave as heads (no body); the exported flags are the original ones without pub; every other field is the original value; an exported declaration is never exported again. Loop-free, no bound needed.",
   note="Outside: expand() (import path resolution, splice order), multi-file behaviour of compiled programs. Trusted: MIR dump, mirsym + models (EnumSet as bit set, derived Clone as identity, Option::map); the encoding is validated natively (guarded hook) on all 6 x 32 kind/flag combinations on every run.",
   ref="DESIGN.md section 3, C12"),
 "C09": dict(cat="model_checking",
   text="Lexed-value clause: for 15 boundary literal templates (largest decimal decade, 32 hex digits, 128 binary digits, every suffix stem, hex/unicode/simple escapes, unclosed and two-character char literals) completed by 2-4 arbitrary bytes, the real second-generation lexer and an independent reference lexer are both executed symbolically and z3 decides that kind, suffix type, 128-bit value and error code (E140, E141, E160-E163) agree for every completion; no overflow panic is reachable. Range-lint clause: min_i128/max_u128 equal the integer ranges and the literal arms of the linter emit exactly one L1142 iff the 128-bit value is outside the range of the resolved type, for every value x type.",
   note="Bounded to the templates (prefix + 2..4 symbolic bytes, lengths up to 131). Outside: first-generation lexing, unary-minus folding in the parser, run-time values in IR. Trusted: MIR dumps, mirsym + models (both encodings re-validated against the native lexers on sampled inputs every run), the reference lexer reflex/src/lib.rs (natively diffed against the real lexer on the repository corpus).",
   ref="DESIGN.md section 3, C09"),
 "C14": dict(cat="model_checking",
   text="Second-generation lexer vs. the documented lexical grammar: for EVERY byte string of length 1..4 (quick; 1..5 thorough; 4.3e9 / 1.1e12 inputs) and for templates crossing comments, CRLF, keyword/type/builtin tails, the real lexer (MIR of /repo) and an independent reference lexer (MIR of /verif/reflex) are symbolically executed on the same symbolic bytes and one solver query per observable (token count, kind, value type, payload, span start/end, line start, line number, error list) must be unsat.",
   note="Bounded by input length (templates). The first-generation lexer and therefore the 'two lexers agree' sentence are outside. Trusted as for C09.",
   ref="DESIGN.md section 3, C14"),
 "C15": dict(cat="model_checking",
   text="Lexer half: every assert terminator (arithmetic overflow, slice/array index), modelled unwrap/expect/panic and `unreachable` reachable from lex_source_into_buffer, including the real TokensBuffer::push/push_token/push_error/push_integer_payload code, is an obligation that z3 shows unsatisfiable for every byte string of length 1..4 (5 thorough) and for boundary templates up to 131 bytes (last decimal decade, 32 hex digits, 128 binary digits, unicode/hex escapes, dense errors); loop unrolling bounds carry unwinding obligations; the result is always Ok. Entry scenario: the public lex() (Tokens::empty, buffer, set_tokens_len) from the MIR built with verif_small_buffers, with a heap model of Vec::with_capacity/spare_capacity_mut/set_len: set_len stays within the capacity and exposes only written slots, for all strings of length <= 3 (4) and templates crossing the token capacity (capacity-1, capacity, E103 path); the token list ends in EndOfSource.",
   note="Bounded by the templates. Outside: the second-generation parser, build_header, XML dumps, sources above the real buffer floors (65536 tokens), pointer provenance/alignment.",
   ref="DESIGN.md section 3, C15"),
 "C11": dict(cat="model_checking",
   text="Type-legality clause: is_wellformed and the can_be_{variable,constant,parameter,returned,struct_member,word_member,sized} predicates are symbolically executed from MIR and proved equal to the documented rules (E350-E356) for every type of nesting depth <= 3 (quick) / 6 (thorough), with the documented consequences (legal implies well-formed, void only as return type, word member sizes). Containment clause: Analyzer::found_container/found_container_1/found_named_lengths, use_constant/use_containee and determine_container_depths (scoper/variable_references.rs) executed from MIR as ONE step from an ARBITRARY analyzer state of up to 4 containers (thorough also 6 with leaf types) with symbolic ids, kinds and HashSet<u32> contents, constrained only by the representation invariant (distinct ids, contained ids declared, irreflexive, transitively closed), on a symbolic contained type of depth <= 2: the step is rejected iff the type depends (structures/words by value, array-length constants anywhere) on the container or on something containing it (E413 for constants, E415/E416 for members), an accepted step records exactly the new reachability, preserves the invariant and returns the type unchanged; a name used in a constant expression resolves to the constant of that name (E402, E433 otherwise) and records the dependency; depths are 0 for empty containers and 1 + the deepest containee otherwise. The invariant holds initially and is preserved, so the clauses hold after error-free histories of any length. Typer clauses: fix_type_for_flags/externalize_type for every well-formed type of depth <= 3 (4), every context and both extern settings: behind extern a type is accepted iff it is built from pointers, views and array views over i8..i64, u8..u64, usize, char8 (E358 otherwise) and is rewritten as documented; Typer::align_struct on up to 4 (5) members with symbolic word-member types and a symbolic declared size: accepted iff the naturally aligned, padded layout fits (E380 otherwise, with both sizes in bits), no overflow; the fixed type of a well-formed type is well-formed. Duplicate names: the six declare_* functions as one step from an arbitrary state: rejected with the code of their kind (E421-E426) iff a declaration of that name is visible in the name space, recorded with a fresh id either way, nothing else changes.",
   note="Bounded by type nesting depth, number of containers and an 8-bit id set. Outside: declaration order independence of whole programs beyond the per-step rules, analyzer states after the first reported cycle, where in the pipeline the typer rules are applied (only the rules themselves are decided). Vacuity witnesses (must be sat) guard the containment premises.",
   ref="DESIGN.md section 3, C11"),
 "C13": dict(cat="model_checking",
   text="Code-catalogue clause only: Error::code is symbolically executed from MIR over a fully symbolic Error value and z3 decides, for all variants x lexical sub-errors, that the returned code has a heading in docs/errors.md (all counter-models enumerated). Loop-free, so no bound is needed, but the claim covers only this clause of C13.",
   note="Trusted: rustc's MIR dump, the mirsym interpreter (validated on every table row against the native function on each run), z3 (final query re-run on z3 4.8.12 and cvc5). Outside the claim: locations, rendering, determinism.",
   ref="DESIGN.md section 3, C13"),
}
na = {
 "C01":"observable is stdout/exit status of lli running IR built through ~100 LLVM-C FFI calls; no solver-reachable encoding of LLVM's semantics exists in this image",
 "C02":"quantifies over the whole first-generation pipeline plus an aborting LLVM verifier; the encodable slice (second-generation lexer totality) is claimed under C15",
 "C03":"the code under test is LLVM's own assembler/verifier/linker behind FFI",
 "C05":"variable_references.rs keeps HashMap/HashSet state keyed by resolution ids across gotos and walks the full expression AST; only its containment slice was reached (claimed under C11)",
 "C10":"both evaluators (constant folder and interpreter) are LLVM",
 "C16":"the recursive-descent parser explodes in CBMC as soon as one token is symbolic (measured); with the MIR executor lex()+parse() run in <1 s on concrete inputs but did not finish in 15-18 min with one symbolic byte (time-boxed, abandoned)",
 "C17":"as C16",
 "C18":"process exit status, files and rendered diagnostics are OS-level behaviour; get_backend drags anyhow/backtrace drop glue (measured 10 GB)",
 "C19":"every spelling goes through rand distributions (f64 Bernoulli, wide multiply) and core::fmt",
 "C20":"write!/format! over the heap AST, then re-parsed by the first-generation parser",
}
for k in checks:
    na.pop(k, None)
m = {
 "version": 1,
 "setup_cmd": "./setup.sh",
 "hooks": {"guard": "cargo features verif / verif_small_buffers",
           "enable": "--features verif_small_buffers (Kani harness crates); the MIR-based checks use the unhooked crate",
           "baseline_off_cmd": "python3 /verif/lib/baseline.py", "source_commits": ["ecc0424", "2ff211b", "4dd7126", "cb3acb4", "32a0e2f", "e7be6da", "35f1c84", "b36789d", "a86b5a8", "f5fa45e", "89c3cb8", "78f82b1", "96e3858"], "add_only": True},
 "engines": [
  {"name": "E-MIR", "path": "mir/", "serves_properties": sorted(checks),
   "kind_free_text": "bounded symbolic execution of rustc MIR (nightly -Zunpretty=mir of /repo's working tree) into z3 bit-vector terms; verdicts cross-checked on z3 4.8.12 and cvc5; translation validated natively through replay/"},
 ],
 "checks": [
  {"property_id": k, "quick_cmd": "./check %s --tier quick" % k, "thorough_cmd": "./check %s --tier thorough" % k,
   "evidence_file": "evidence/%s.json" % k, "replay_cmd_template": "./check %s --replay {path}" % k, "engine": c.get("engine", "E-MIR"),
   "level_claimed": {"category": c["cat"], "text": c["text"], "design_ref": c["ref"]},
   "level_note": c["note"], "technique": c.get("technique", EMIR)} for k, c in sorted(checks.items())],
 "not_applicable": [{"property_id": k, "reason": v} for k, v in sorted(na.items())],
 "notes": "All checks accept VERIF_REPO=<dir> to run against a scratch worktree (used for the seeded changes under seeded/).",
}
json.dump(m, open(os.path.join(V, 'MANIFEST.json'), 'w'), indent=1)
print('claimed', sorted(checks), 'n/a', sorted(na))
