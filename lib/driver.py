import argparse
import importlib
import os
import sys
import traceback

sys.path.insert(0, os.path.dirname(os.path.abspath(__file__)))
import common  # noqa: E402  (sets sys.path for mir/ and lib/)
sys.path.insert(0, os.path.join(common.VERIF, 'checks'))


def main():
    import resource
    try:
        # an encoding that explodes must end as an error of this check, not take the machine down
        resource.setrlimit(resource.RLIMIT_AS, (40 << 30, 40 << 30))
    except (ValueError, OSError):
        pass
    ap = argparse.ArgumentParser()
    ap.add_argument('prop')
    ap.add_argument('--tier', default=os.environ.get('VERIF_TIER', 'quick'), choices=['quick', 'thorough'])
    ap.add_argument('--replay')
    a = ap.parse_args()
    mod = importlib.import_module(a.prop.lower())
    try:
        if a.replay:
            rc = mod.replay_file(a.replay)
        else:
            rc = mod.run(a.tier)
    except common.Inconclusive as e:
        common.log('INCONCLUSIVE %s: %s' % (a.prop, e))
        rc = 2
    except MemoryError:
        common.log('INCONCLUSIVE %s: out of memory (encoding too large for the bound)' % a.prop)
        rc = 2
    except Exception:
        traceback.print_exc()
        common.log('INCONCLUSIVE %s: internal error' % a.prop)
        rc = 2
    sys.exit(rc)


main()
