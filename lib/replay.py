"""Generation and invocation of the native replay crate (pv_replay), which links the real,
unhooked crate and re-evaluates solver results natively."""
import os
import re
import subprocess
import time

from common import VERIF, REPO, TARGET, Inconclusive

import hashlib
import re
import shutil


def _crate_dir():
    """The replay crate; for a non-default VERIF_REPO a private copy whose path dependency points there, so that
    runs on scratch worktrees never touch the tracked crate."""
    if REPO == '/repo':
        return os.path.join(VERIF, 'replay')
    d = os.path.join(TARGET, 'replay-src-' + hashlib.sha256(REPO.encode()).hexdigest()[:6])
    src = os.path.join(VERIF, 'replay')
    os.makedirs(os.path.join(d, 'src'), exist_ok=True)
    for f in os.listdir(os.path.join(src, 'src')):
        if f.endswith('.rs'):
            text = open(os.path.join(src, 'src', f)).read()
            text = text.replace('#[path = "../../reflex/src/lib.rs"]', '#[path = "%s"]' % os.path.join(VERIF, 'reflex', 'src', 'lib.rs'))
            dst = os.path.join(d, 'src', f)
            if not os.path.exists(dst) or open(dst).read() != text:
                open(dst, 'w').write(text)
    toml = open(os.path.join(src, 'Cargo.toml')).read()
    toml = re.sub(r'penne = \{ path = "[^"]*"', 'penne = { path = "%s"' % REPO, toml)
    dst = os.path.join(d, 'Cargo.toml')
    if not os.path.exists(dst) or open(dst).read() != toml:
        open(dst, 'w').write(toml)
    return d


CRATE = _crate_dir()
GEN_DIR = os.path.join(CRATE, 'src', 'generated')


def default_expr(ty):
    ty = ty.strip()
    if ty in ('usize', 'u8', 'u16', 'u32', 'u64', 'u128', 'i8', 'i16', 'i32', 'i64', 'i128', 'isize'):
        return '0'
    if ty == 'bool':
        return 'false'
    if ty == 'String':
        return 'String::new()'
    if ty == 'Location':
        return ('penne::alpha::lexer::Location { source_filename: String::new(), span: 0..0, '
                'line_number: 1, line_offset: 1 }')
    if ty.startswith('Vec<'):
        return 'Vec::new()'
    if ty.startswith('ValueType'):
        return 'penne::alpha::value_type::ValueType::Void'
    if ty.startswith('Option<'):
        return 'None'
    raise Inconclusive('replay generator: no default value for field type %r' % ty)


def gen_error_codes(defs):
    e = defs.find_enum('alpha::error::Error')
    le = defs.find_enum('alpha::lexer::Error')
    out = ['// generated from %s and %s' % (e.file, le.file),
           'use penne::alpha::error::Error;', 'use penne::alpha::lexer::Error as LexError;', '',
           'fn lex_errors() -> Vec<(&\'static str, LexError)> {', '    vec![']
    for vname, d, fields in le.variants:
        if fields:
            raise Inconclusive('lexer::Error::%s has fields' % vname)
        out.append('        ("%s", LexError::%s),' % (vname, vname))
    out += ['    ]', '}', '', 'pub fn run() {']
    for vname, d, fields in e.variants:
        lex_field = [f for f in fields if f[1].endswith('lexer::Error') or f[1] == 'Error']
        if lex_field:
            out.append('    for (sub, le) in lex_errors() {')
            inits = []
            for fname, ft in fields:
                if (fname, ft) == lex_field[0]:
                    inits.append('%s: le' % fname)
                else:
                    inits.append('%s: %s' % (fname, default_expr(ft)))
            out.append('        let e = Error::%s { %s };' % (vname, ', '.join(inits)))
            out.append('        println!("%s {} {}", sub, e.code());' % vname)
            out.append('    }')
        else:
            if fields and fields[0][0] is None:
                ctor = 'Error::%s(%s)' % (vname, ', '.join(default_expr(ft) for _, ft in fields))
            elif fields:
                ctor = 'Error::%s { %s }' % (vname, ', '.join('%s: %s' % (fn, default_expr(ft)) for fn, ft in fields))
            else:
                ctor = 'Error::%s' % vname
            out.append('    println!("%s - {}", (%s).code());' % (vname, ctor))
    out.append('}')
    return '\n'.join(out) + '\n'


STUBS = {
    'error_codes': 'pub fn run() { eprintln!("not generated"); std::process::exit(2); }\n',
    'value_types': 'pub fn run(_args: &[String]) { eprintln!("not generated"); std::process::exit(2); }\npub fn run_resolver() { eprintln!("not generated"); std::process::exit(2); }\npub fn run_lint() { eprintln!("not generated"); std::process::exit(2); }\npub fn run_call() { eprintln!("not generated"); std::process::exit(2); }\npub fn run_containers() { eprintln!("not generated"); std::process::exit(2); }\npub fn run_typer() { eprintln!("not generated"); std::process::exit(2); }\n',
}


def _default_value_types():
    """The value_types module as every check generates it (from /repo's current ValueType definition)."""
    import sys
    for d in ('mir', 'checks'):
        q = os.path.join(VERIF, d)
        if q not in sys.path:
            sys.path.insert(0, q)
    import vtlib
    import vtcheck
    from rustdefs import RustDefs
    defs = RustDefs(os.path.join(REPO, 'src'))
    edef = defs.find_enum('alpha::value_type::ValueType')
    if edef is None:
        raise Inconclusive('enum ValueType not found in src/alpha/value_type.rs')
    kinds = vtlib.field_kinds(edef)
    vtlib.init_names(edef)
    return vtlib.gen_value_types_rs(edef, list(vtcheck.PUB_UNARY), list(vtcheck.PUB_BINARY), kinds)


def write_generated(mods):
    """mods: name -> source text.  value_types is regenerated from the current sources whenever it is not supplied (a file
    left behind by an older generator must never decide whether the crate builds); other missing modules get stubs."""
    os.makedirs(GEN_DIR, exist_ok=True)
    if 'value_types' not in mods:
        mods = dict(mods, value_types=_default_value_types())
    names = sorted(set(STUBS) | set(mods))
    for n in names:
        p = os.path.join(GEN_DIR, n + '.rs')
        text = mods.get(n)
        if text is None:
            if os.path.exists(p):
                continue
            text = STUBS[n]
        old = open(p).read() if os.path.exists(p) else None
        if old != text:
            open(p, 'w').write(text)
    modrs = ''.join('pub mod %s;\n' % n for n in names)
    p = os.path.join(GEN_DIR, 'mod.rs')
    if not os.path.exists(p) or open(p).read() != modrs:
        open(p, 'w').write(modrs)


def build(release=False):
    lock = os.path.join(CRATE, 'Cargo.lock')
    if not os.path.exists(lock):
        open(lock, 'w').write(open(os.path.join(REPO, 'Cargo.lock')).read())
    tdir = 'replay' if REPO == '/repo' else 'replay-' + hashlib.sha256(REPO.encode()).hexdigest()[:6]
    env = dict(os.environ, CARGO_NET_OFFLINE='true', CARGO_TARGET_DIR=os.path.join(TARGET, tdir))
    cmd = ['cargo', 'build', '--offline', '--quiet'] + (['--release'] if release else [])
    t = time.time()
    p = subprocess.run(cmd, cwd=CRATE, env=env, stdout=subprocess.PIPE, stderr=subprocess.PIPE, text=True)
    if p.returncode != 0:
        errs = [l for l in p.stderr.split('\n') if l.startswith('error')]
        raise Inconclusive('pv_replay does not build: %s\n%s' % (errs[:3], p.stderr[-2000:]))
    return os.path.join(TARGET, tdir, 'release' if release else 'debug', 'pv_replay'), time.time() - t


def run(binary, args, stdin=None, timeout=300):
    p = subprocess.run([binary] + list(args), input=stdin, stdout=subprocess.PIPE, stderr=subprocess.PIPE,
                       text=True, timeout=timeout)
    return p.returncode, p.stdout, p.stderr
