#!/bin/bash
# Build the framework from files on disk only (offline).
set -e
cd "$(dirname "$0")"
export CARGO_NET_OFFLINE=true
mkdir -p .target evidence replays
# warm the caches: MIR dump of /repo and the native replay crate
python3-vt - <<'PY'
import sys
sys.path.insert(0, 'lib')
import common, replay
from rustdefs import RustDefs
import os
print(common.mir_dump())
print(common.reflex_dump())
replay.write_generated({})
print(replay.build())
PY
echo setup ok
