//! Reference lexer for Penne's lexical grammar, written from docs/syntax.md, docs/errors.md
//! (E110, E140, E141, E160-E163) and the README, independently of src/delta/lexer.rs.
//!
//! Style: "find the end of the lexeme, then classify it" over plain indices, arrays and integers,
//! so that it can be (a) run natively against the real lexers on the repository's corpus and
//! (b) symbolically executed from its own MIR and compared with the real lexer on *all* byte
//! strings up to a bound.
//!
//! Output: up to MAXTOK tokens (kind, value type, payload, span, line start, line number) and the
//! list of lexical errors (error kind, token index), exactly what the second-generation `Tokens`
//! exposes through its public accessors.

pub const MAXTOK: usize = 16;

// Token kinds, numbered like `delta::lexer::BaseToken` (the numbering is checked against the
// current source by the harness generator, not assumed).
pub mod kind {
    pub const END_OF_SOURCE: u8 = 0;
    pub const PAREN_LEFT: u8 = 1;
    pub const PAREN_RIGHT: u8 = 2;
    pub const BRACE_LEFT: u8 = 3;
    pub const BRACE_RIGHT: u8 = 4;
    pub const BRACKET_LEFT: u8 = 5;
    pub const BRACKET_RIGHT: u8 = 6;
    pub const ANGLE_LEFT: u8 = 7;
    pub const ANGLE_RIGHT: u8 = 8;
    pub const PIPE: u8 = 9;
    pub const AMPERSAND: u8 = 10;
    pub const CARET: u8 = 11;
    pub const EXCLAMATION: u8 = 12;
    pub const PLACEHOLDER: u8 = 13;
    pub const PLUS: u8 = 14;
    pub const MINUS: u8 = 15;
    pub const TIMES: u8 = 16;
    pub const DIVIDE: u8 = 17;
    pub const MODULO: u8 = 18;
    pub const COLON: u8 = 19;
    pub const SEMICOLON: u8 = 20;
    pub const DOT: u8 = 21;
    pub const COMMA: u8 = 22;
    pub const ASSIGNMENT: u8 = 23;
    pub const EQUALS: u8 = 24;
    pub const DOES_NOT_EQUAL: u8 = 25;
    pub const IS_GE: u8 = 26;
    pub const IS_LE: u8 = 27;
    pub const SHIFT_LEFT: u8 = 28;
    pub const SHIFT_RIGHT: u8 = 29;
    pub const ARROW: u8 = 30;
    pub const PIPE_FOR_TYPE: u8 = 31;
    pub const DOTS: u8 = 32;
    pub const FN: u8 = 33;
    pub const VAR: u8 = 34;
    pub const CONST: u8 = 35;
    pub const IF: u8 = 36;
    pub const GOTO: u8 = 37;
    pub const LOOP: u8 = 38;
    pub const RETURN: u8 = 39;
    pub const ELSE: u8 = 40;
    pub const CAST: u8 = 41;
    pub const AS: u8 = 42;
    pub const IMPORT: u8 = 43;
    pub const PUB: u8 = 44;
    pub const EXTERN: u8 = 45;
    pub const STRUCT: u8 = 46;
    pub const WORD8: u8 = 47;
    pub const WORD16: u8 = 48;
    pub const WORD32: u8 = 49;
    pub const WORD64: u8 = 50;
    pub const WORD128: u8 = 51;
    pub const VALUE_TYPE_KEYWORD: u8 = 52;
    pub const IDENTIFIER: u8 = 53;
    pub const BUILTIN: u8 = 54;
    pub const NAKED_DECIMAL: u8 = 55;
    pub const BIT_INTEGER: u8 = 56;
    pub const SUFFIXED_INTEGER: u8 = 57;
    pub const CHAR_LITERAL: u8 = 58;
    pub const BOOL_LITERAL: u8 = 59;
    pub const STRING_LITERAL: u8 = 60;
    pub const ERROR: u8 = 61;
}

// Value type keywords, numbered like `delta::lexer::ValueTypeKeyword`.
pub mod vt {
    pub const NONE: u8 = 0;
    pub const VOID: u8 = 1;
    pub const I8: u8 = 2;
    pub const I16: u8 = 3;
    pub const I32: u8 = 4;
    pub const I64: u8 = 5;
    pub const I128: u8 = 6;
    pub const U8: u8 = 7;
    pub const U16: u8 = 8;
    pub const U32: u8 = 9;
    pub const U64: u8 = 10;
    pub const U128: u8 = 11;
    pub const USIZE: u8 = 12;
    pub const CHAR8: u8 = 13;
    pub const BOOL: u8 = 14;
}

// Lexical error kinds, numbered like `alpha::lexer::Error`.
pub mod err {
    pub const UNEXPECTED_CHARACTER: u8 = 3; // E110
    pub const INVALID_INTEGER_LENGTH: u8 = 4; // E140
    pub const INVALID_INTEGER_TYPE_SUFFIX: u8 = 5; // E141
    pub const INVALID_ESCAPE_SEQUENCE: u8 = 6; // E162
    pub const UNEXPECTED_TRAILING_BACKSLASH: u8 = 7; // E161
    pub const MISSING_CLOSING_QUOTE: u8 = 8; // E160
    pub const INVALID_CHAR_LITERAL: u8 = 9; // E163
}

#[derive(Clone, Copy)]
pub struct Tok {
    pub kind: u8,
    pub vt: u8,
    pub has_payload: bool,
    pub payload: u128,
    pub start: u32,
    pub end: u32,
    pub line_start: u32,
    pub line: u32,
}

#[derive(Clone, Copy)]
pub struct LexErr {
    pub kind: u8,
    pub token: u32,
}

pub struct Out {
    pub ntok: usize,
    pub toks: [Tok; MAXTOK],
    pub nerr: usize,
    pub errs: [LexErr; MAXTOK],
    /// more than MAXTOK tokens would have been needed (outside the reference's range)
    pub full: bool,
}

const EMPTY: Tok = Tok { kind: 0, vt: 0, has_payload: false, payload: 0, start: 0, end: 0, line_start: 0, line: 0 };

fn is_alpha(b: u8) -> bool {
    (b >= b'a' && b <= b'z') || (b >= b'A' && b <= b'Z') || b == b'_'
}

fn is_digit(b: u8) -> bool {
    b >= b'0' && b <= b'9'
}

fn is_word(b: u8) -> bool {
    is_alpha(b) || is_digit(b)
}

fn hex_value(b: u8) -> u8 {
    // 255 = not a hex digit
    if b >= b'0' && b <= b'9' {
        b - b'0'
    } else if b >= b'a' && b <= b'f' {
        b - b'a' + 10
    } else if b >= b'A' && b <= b'F' {
        b - b'A' + 10
    } else {
        255
    }
}

fn suffix_type(src: &[u8], from: usize, to: usize) -> u8 {
    match &src[from..to] {
        b"i8" => vt::I8,
        b"i16" => vt::I16,
        b"i32" => vt::I32,
        b"i64" => vt::I64,
        b"i128" => vt::I128,
        b"u8" => vt::U8,
        b"u16" => vt::U16,
        b"u32" => vt::U32,
        b"u64" => vt::U64,
        b"u128" => vt::U128,
        b"usize" => vt::USIZE,
        _ => vt::NONE,
    }
}

/// Keyword table: returns (kind, value type, has payload, payload); kind IDENTIFIER if no keyword.
fn classify_word(src: &[u8], from: usize, to: usize) -> (u8, u8, bool, u128) {
    let st = suffix_type(src, from, to);
    if st != vt::NONE {
        return (kind::VALUE_TYPE_KEYWORD, st, false, 0);
    }
    let k = match &src[from..to] {
        b"bool" => return (kind::VALUE_TYPE_KEYWORD, vt::BOOL, false, 0),
        b"void" => return (kind::VALUE_TYPE_KEYWORD, vt::VOID, false, 0),
        b"char8" => return (kind::VALUE_TYPE_KEYWORD, vt::CHAR8, false, 0),
        b"true" => return (kind::BOOL_LITERAL, vt::NONE, true, 1),
        b"false" => return (kind::BOOL_LITERAL, vt::NONE, true, 0),
        b"fn" => kind::FN,
        b"var" => kind::VAR,
        b"const" => kind::CONST,
        b"if" => kind::IF,
        b"goto" => kind::GOTO,
        b"loop" => kind::LOOP,
        b"return" => kind::RETURN,
        b"else" => kind::ELSE,
        b"cast" => kind::CAST,
        b"as" => kind::AS,
        b"import" => kind::IMPORT,
        b"pub" => kind::PUB,
        b"extern" => kind::EXTERN,
        b"struct" => kind::STRUCT,
        b"word8" => kind::WORD8,
        b"word16" => kind::WORD16,
        b"word32" => kind::WORD32,
        b"word64" => kind::WORD64,
        b"word128" => kind::WORD128,
        b"_" => kind::PLACEHOLDER,
        _ => kind::IDENTIFIER,
    };
    (k, vt::NONE, false, 0)
}

/// End of the run of word characters starting at `from`.
fn word_end(src: &[u8], from: usize) -> usize {
    let mut j = from;
    while j < src.len() && is_word(src[j]) {
        j += 1;
    }
    j
}

/// An integer literal occupies src[i..end] (it starts with a decimal digit and `end` is the end of the
/// run of word characters). Returns (kind, vt, payload, error kind or 0).
fn integer(src: &[u8], i: usize, end: usize) -> (u8, u8, u128, u8) {
    // split the word into digits and suffix
    let mut radix: u128 = 10;
    let mut digits_from = i;
    if src[i] == b'0' {
        // a base prefix counts only if at least one digit of that base follows (underscores allowed)
        if i + 1 < end && (src[i + 1] == b'x' || src[i + 1] == b'b') {
            let r: u128 = if src[i + 1] == b'x' { 16 } else { 2 };
            let mut j = i + 2;
            let mut found = false;
            while j < end {
                let h = hex_value(src[j]);
                if src[j] == b'_' {
                    j += 1;
                } else if h != 255 && (h as u128) < r {
                    found = true;
                    j += 1;
                } else {
                    break;
                }
            }
            if found {
                radix = r;
                digits_from = i + 2;
            }
        }
        if radix == 10 {
            // a lone zero; everything after it is a suffix
            if end == i + 1 {
                return (kind::NAKED_DECIMAL, vt::NONE, 0, 0);
            }
            let st = suffix_type(src, i + 1, end);
            if st == vt::NONE {
                return (kind::ERROR, vt::NONE, 0, err::INVALID_INTEGER_TYPE_SUFFIX);
            }
            return (kind::SUFFIXED_INTEGER, st, 0, 0);
        }
    }
    // digits (and underscores) of the radix, then the suffix
    let mut j = digits_from;
    let mut value: u128 = 0;
    let mut too_big = false;
    let mut ndigits: u32 = 0;
    while j < end {
        let h = hex_value(src[j]);
        if src[j] == b'_' {
            j += 1;
        } else if h != 255 && (h as u128) < radix {
            ndigits += 1;
            // E140 is "too big to parse": a literal is too big iff its VALUE needs more than 128 bits, whatever the
            // radix; leading zeros do not make it bigger (the first-generation lexer and the 0x branch agree)
            if radix == 2 {
                if (value >> 127) != 0 {
                    too_big = true;
                    value = 0;
                } else {
                    value = (value << 1) | (h as u128);
                }
            } else {
                match value.checked_mul(radix) {
                    Some(v) => match v.checked_add(h as u128) {
                        Some(w) => value = w,
                        None => {
                            too_big = true;
                            value = 0;
                        }
                    },
                    None => {
                        too_big = true;
                        value = 0;
                    }
                }
            }
            j += 1;
        } else {
            break;
        }
    }
    if too_big {
        return (kind::ERROR, vt::NONE, 0, err::INVALID_INTEGER_LENGTH);
    }
    if j == end {
        let k = if radix == 10 { kind::NAKED_DECIMAL } else { kind::BIT_INTEGER };
        return (k, vt::NONE, value, 0);
    }
    let st = suffix_type(src, j, end);
    if st == vt::NONE {
        return (kind::ERROR, vt::NONE, 0, err::INVALID_INTEGER_TYPE_SUFFIX);
    }
    (kind::SUFFIXED_INTEGER, st, value, 0)
}

pub struct QuoteInfo {
    /// error kind or 0, with its span
    pub e: u8,
    pub e_from: usize,
    pub e_to: usize,
    /// number of bytes the literal denotes, and the last of them
    pub nbytes: u32,
    pub last: u8,
}

/// A quoted literal starts at `i` (the opening quote). Returns the index after the literal and
/// fills in `info`.
fn quoted(src: &[u8], i: usize, allow_unicode: bool, info: &mut QuoteInfo) -> usize {
    let quote = src[i];
    let mut j = i + 1;
    let mut e: u8 = 0;
    let mut e_from = 0;
    let mut e_to = 0;
    let mut nbytes: u32 = 0;
    let mut last: u8 = 0;
    let mut closed = false;
    while j < src.len() && src[j] != b'\n' {
        let b = src[j];
        if b == quote {
            j += 1;
            closed = true;
            break;
        }
        if b == b'\\' {
            let esc_from = j;
            if j + 1 >= src.len() || src[j + 1] == b'\n' {
                // backslash at the very end of the line or of the source (E161); the newline stays
                j += 1;
                if e == 0 {
                    e = err::UNEXPECTED_TRAILING_BACKSLASH;
                    e_from = esc_from;
                    e_to = j;
                }
                break;
            }
            let c = src[j + 1];
            j += 2;
            let mut ok = true;
            let mut produced: u8 = 0;
            let mut count: u32 = 1;
            if c == b'n' {
                produced = b'\n';
            } else if c == b'r' {
                produced = b'\r';
            } else if c == b't' {
                produced = b'\t';
            } else if c == b'\\' || c == b'\'' || c == b'"' {
                produced = c;
            } else if c == b'0' {
                produced = 0;
            } else if c == b'x' {
                // exactly two hex digits
                let mut v: u8 = 0;
                let mut n = 0;
                while n < 2 && j < src.len() && hex_value(src[j]) != 255 {
                    v = (v << 4) | hex_value(src[j]);
                    j += 1;
                    n += 1;
                }
                if n == 2 {
                    produced = v;
                } else {
                    ok = false;
                }
            } else if c == b'u' && allow_unicode {
                // \u{H..H} with one to six hex digits naming a Unicode scalar value
                let mut v: u32 = 0;
                let mut n: u32 = 0;
                let mut good = false;
                if j < src.len() && src[j] == b'{' {
                    j += 1;
                    loop {
                        if j >= src.len() {
                            break;
                        }
                        let h = hex_value(src[j]);
                        if h != 255 {
                            if n < 8 {
                                v = (v << 4) | (h as u32);
                            }
                            n += 1;
                            j += 1;
                        } else if src[j] == b'}' {
                            j += 1;
                            good = n >= 1 && n <= 6;
                            break;
                        } else {
                            break;
                        }
                    }
                }
                let scalar = v <= 0x10FFFF && !(v >= 0xD800 && v <= 0xDFFF);
                if good && scalar {
                    count = if v < 0x80 { 1 } else if v < 0x800 { 2 } else if v < 0x10000 { 3 } else { 4 };
                    produced = 0;
                } else {
                    ok = false;
                }
            } else {
                ok = false;
            }
            if ok {
                nbytes += count;
                last = produced;
            } else if e == 0 {
                e = err::INVALID_ESCAPE_SEQUENCE;
                e_from = esc_from;
                e_to = j;
            }
            continue;
        }
        j += 1;
        if b == b' ' || (b > 32 && b < 127) || b >= 128 {
            nbytes += 1;
            last = b;
        } else if e == 0 {
            // ASCII control characters (tab included) may not appear in literals
            e = err::UNEXPECTED_CHARACTER;
            e_from = j - 1;
            e_to = j;
        }
    }
    if !closed && e == 0 {
        e = err::MISSING_CLOSING_QUOTE;
        e_from = j;
        e_to = j;
    }
    info.e = e;
    info.e_from = e_from;
    info.e_to = e_to;
    info.nbytes = nbytes;
    info.last = last;
    j
}

pub fn lex(src: &[u8]) -> Out {
    let mut out = Out { ntok: 0, toks: [EMPTY; MAXTOK], nerr: 0, errs: [LexErr { kind: 0, token: 0 }; MAXTOK], full: false };
    let mut i = 0;
    let mut line: u32 = 1;
    let mut line_start: u32 = 0;
    while i < src.len() {
        let b = src[i];
        let next: u8 = if i + 1 < src.len() { src[i + 1] } else { 0 };
        // layout
        if b == b' ' || b == b'\t' || b == b'\r' {
            i += 1;
            continue;
        }
        if b == b'\n' {
            i += 1;
            line += 1;
            line_start = i as u32;
            continue;
        }
        if b == b'/' && i + 1 < src.len() && next == b'/' {
            while i < src.len() && src[i] != b'\n' {
                i += 1;
            }
            continue;
        }
        let start = i;
        let mut t = Tok { kind: kind::ERROR, vt: vt::NONE, has_payload: false, payload: 0, start: 0, end: 0, line_start, line };
        let mut e: u8 = 0;
        let mut span_from = start;
        let mut span_to;
        let has_next = i + 1 < src.len();
        if is_alpha(b) {
            let end = word_end(src, i);
            let (k, v, hp, p) = classify_word(src, i, end);
            t.kind = k;
            t.vt = v;
            t.has_payload = hp;
            t.payload = p;
            i = end;
            if k == kind::IDENTIFIER && i < src.len() && src[i] == b'!' {
                t.kind = kind::BUILTIN;
                i += 1;
            }
            span_to = i;
        } else if is_digit(b) {
            let end = word_end(src, i);
            let (k, v, p, ee) = integer(src, i, end);
            t.kind = k;
            t.vt = v;
            t.has_payload = k != kind::ERROR;
            t.payload = p;
            e = ee;
            i = end;
            span_to = i;
        } else if b == b'\'' || b == b'"' {
            let mut q = QuoteInfo { e: 0, e_from: 0, e_to: 0, nbytes: 0, last: 0 };
            let end = quoted(src, i, b == b'"', &mut q);
            i = end;
            span_to = i;
            if q.e != 0 {
                e = q.e;
                span_from = q.e_from;
                span_to = q.e_to;
            } else if b == b'"' {
                t.kind = kind::STRING_LITERAL;
            } else if q.nbytes == 1 {
                t.kind = kind::CHAR_LITERAL;
                t.has_payload = true;
                t.payload = q.last as u128;
            } else {
                e = err::INVALID_CHAR_LITERAL;
            }
        } else {
            // punctuation: longest match first
            let two = if !has_next {
                0
            } else if b == b'=' && next == b'=' {
                kind::EQUALS
            } else if b == b'!' && next == b'=' {
                kind::DOES_NOT_EQUAL
            } else if b == b'>' && next == b'=' {
                kind::IS_GE
            } else if b == b'<' && next == b'=' {
                kind::IS_LE
            } else if b == b'<' && next == b'<' {
                kind::SHIFT_LEFT
            } else if b == b'>' && next == b'>' {
                kind::SHIFT_RIGHT
            } else if b == b'-' && next == b'>' {
                kind::ARROW
            } else if b == b'|' && next == b':' {
                kind::PIPE_FOR_TYPE
            } else if b == b'.' && next == b'.' {
                kind::DOTS
            } else {
                0
            };
            if two != 0 {
                t.kind = two;
                i += 2;
            } else {
                let one = match b {
                    b'(' => kind::PAREN_LEFT,
                    b')' => kind::PAREN_RIGHT,
                    b'{' => kind::BRACE_LEFT,
                    b'}' => kind::BRACE_RIGHT,
                    b'[' => kind::BRACKET_LEFT,
                    b']' => kind::BRACKET_RIGHT,
                    b'<' => kind::ANGLE_LEFT,
                    b'>' => kind::ANGLE_RIGHT,
                    b'|' => kind::PIPE,
                    b'&' => kind::AMPERSAND,
                    b'^' => kind::CARET,
                    b'!' => kind::EXCLAMATION,
                    b'+' => kind::PLUS,
                    b'-' => kind::MINUS,
                    b'*' => kind::TIMES,
                    b'/' => kind::DIVIDE,
                    b'%' => kind::MODULO,
                    b':' => kind::COLON,
                    b';' => kind::SEMICOLON,
                    b'.' => kind::DOT,
                    b',' => kind::COMMA,
                    b'=' => kind::ASSIGNMENT,
                    _ => 0,
                };
                i += 1;
                if one != 0 {
                    t.kind = one;
                } else {
                    e = err::UNEXPECTED_CHARACTER;
                }
            }
            span_to = i;
        }
        if e != 0 {
            t.kind = kind::ERROR;
            t.vt = vt::NONE;
            t.has_payload = false;
            t.payload = 0;
        }
        t.start = span_from as u32;
        t.end = span_to as u32;
        if out.ntok >= MAXTOK - 2 {
            out.full = true;
            return out;
        }
        if e != 0 {
            out.errs[out.nerr] = LexErr { kind: e, token: out.ntok as u32 };
            out.nerr += 1;
        }
        out.toks[out.ntok] = t;
        out.ntok += 1;
    }
    let eos = Tok { kind: kind::END_OF_SOURCE, vt: vt::NONE, has_payload: false, payload: 0, start: src.len() as u32, end: src.len() as u32, line_start, line };
    out.toks[out.ntok] = eos;
    out.toks[out.ntok + 1] = eos;
    out.ntok += 2;
    out
}
