//! Demo for mutant c11d-2: pointers to array views behind `extern` (E358).
//!
//! Passes on the clean tree, fails when `&[]T` in an `extern` declaration is
//! turned into a pointer to an endless array without looking at `T`.

use penne::alpha::common::Declaration;
use penne::alpha::error::Errors;
use penne::alpha::{
	analyzer, expander, lexer, linter, parser, resolved, resolver, scoper,
	typer,
};

/// Run the stages of the first-generation compiler up to the resolver,
/// in the order of `penne::alpha::Compiler::analyze_and_resolve`
/// (without the generator, so no named array lengths).
fn compile(source: &str) -> Result<Vec<resolved::Declaration>, Errors>
{
	let filename = "demo.pn";
	let tokens = lexer::lex(source, filename);
	let declarations = parser::parse(tokens);
	let declarations = expander::expand_one(filename, declarations);
	resolver::check_surface_level_errors(&declarations)?;
	let mut declarations = scoper::analyze(declarations);
	declarations.sort_by_key(|x| scoper::get_container_depth(x, u32::MAX));
	let offset = declarations.partition_point(|x| scoper::is_container(x));
	let functions = declarations.split_off(offset);
	let containers = declarations;

	let mut typer = typer::Typer::default();
	let mut analyzer = analyzer::Analyzer::default();
	let mut linter = linter::Linter::default();

	let mut stage = |declarations: Vec<Declaration>, are_containers: bool| {
		for declaration in &declarations
		{
			typer.forward_declare_structure(declaration);
		}
		let declarations: Vec<Declaration> = if are_containers
		{
			declarations
		}
		else
		{
			let declarations: Vec<Declaration> =
				declarations.into_iter().map(|x| typer.declare(x)).collect();
			for declaration in &declarations
			{
				analyzer.declare(declaration);
			}
			declarations
		};
		declarations.into_iter().fold(Ok(Vec::new()), |acc, x| {
			let declaration = if are_containers
			{
				typer.declare(x)
			}
			else
			{
				x
			};
			let declaration = typer.analyze(declaration);
			let declaration = analyzer.analyze(declaration);
			linter.lint(&declaration);
			let resolved = resolver::resolve(declaration);
			resolver::accumulate(acc, resolved)
		})
	};
	let containers = stage(containers, true);
	let functions = stage(functions, false);
	resolver::combine(containers, functions)
}

fn codes(source: &str) -> Vec<u16>
{
	match compile(source)
	{
		Ok(_) => Vec::new(),
		Err(errors) => errors.codes(),
	}
}

type ValueType = resolved::ValueType;

fn types_of_parameters(source: &str, name_of_function: &str) -> Vec<ValueType>
{
	let declarations = match compile(source)
	{
		Ok(declarations) => declarations,
		Err(errors) => panic!("unexpected {:?}", errors.codes()),
	};
	for declaration in declarations
	{
		match declaration
		{
			resolved::Declaration::Function {
				name, parameters, ..
			}
			| resolved::Declaration::FunctionHead {
				name, parameters, ..
			} if name.name == name_of_function =>
			{
				return parameters.into_iter().map(|x| x.value_type).collect();
			}
			_ => (),
		}
	}
	panic!("missing function");
}


#[test]
fn array_view_of_array_views_behind_extern_is_rejected_not_a_panic()
{
	for source in [
		"extern fn foo(x: [][]u8);",
		"extern fn foo(x: &[][]u8);",
		"extern fn foo() -> [][]u8;",
		"extern fn foo(x: [][][]i32);",
	]
	{
		let r = std::panic::catch_unwind(|| codes(source));
		println!("{:?} <= {}", r.as_ref().map_err(|_| "PANIC"), source);
		assert_eq!(r.ok(), Some(vec![358]), "{}", source);
	}
	// controls
	assert_eq!(codes("extern fn foo(x: []u8);"), Vec::<u16>::new());
	assert_eq!(codes("extern fn foo(x: &[]u8, y: []&[]i32);"), Vec::<u16>::new());
	assert_eq!(codes("extern fn foo(x: [][4]u8);"), vec![358]);
}
