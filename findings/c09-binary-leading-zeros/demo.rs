//! Finding C09/C14 (fixed in c1ee614): a binary literal is too big (E140) only
//! if its VALUE needs more than 128 bits; leading zeros do not count.
//! Fails on c180ad3 (before the fix), passes from c1ee614 on.
//! Copy to tests/ and run `cargo test --offline --test <name>`.

use penne::delta::lexer::{self, BaseToken};

fn lex_single_integer(source: &str) -> (BaseToken, Option<u128>, bool)
{
	let tokens = lexer::lex(source.as_bytes(), "demo.pn");
	let id = tokens.first_token_id();
	let base = tokens.get(id);
	let vap = tokens.get_value_type_and_payload(id);
	let payload = tokens.get_integer_payload(vap.payload_id());
	(base, payload, tokens.errors().is_some())
}

#[test]
fn binary_literal_with_leading_zero_keeps_its_value()
{
	// the solver's counter-model: 0b0 1^126 01 (129 digits, value < 2^128)
	let source = format!("0b0{}01", "1".repeat(126));
	let value = ((1u128 << 126) - 1) << 2 | 1;
	assert_eq!(
		lex_single_integer(&source),
		(BaseToken::BitInteger, Some(value), false)
	);
}

#[test]
fn binary_literal_of_129_significant_digits_is_rejected()
{
	let source = format!("0b1{}", "0".repeat(128));
	let (base, _, has_errors) = lex_single_integer(&source);
	assert_eq!(base, BaseToken::Error);
	assert!(has_errors);
}
