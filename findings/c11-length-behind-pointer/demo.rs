//
// C11 seed c11c-2: demo.
//
// A structure member (or constant) whose type is an array of arrays depends
// on the named length of the *inner* array as well: the constant must get a
// smaller container depth than its user, a legal module must be accepted in
// every order of its declarations, and a cycle through that length must be
// reported as a cycle (E416 / E413).
//
// Copy to tests/c11c_2_demo.rs and run
//   cargo test --offline --test c11c_2_demo
// (default features, no LLVM needed), or with the first-generation compiler
// fully enabled (`--features alpha,llvm-sys,...`, see notes.md), which adds
// the `*_with_generator` tests that go through `penne::alpha::compile_source`.
//

// ---------------------------------------------------------------------------
// Driver: the alpha pipeline up to and including the resolver, i.e. what
// `penne::alpha::Compiler::analyze_and_resolve` does (src/alpha.rs) minus the
// LLVM generator, which is not available without the `llvm-sys` dependency.
// The only job of the generator at this stage is constant folding of `usize`
// constants that are used as array lengths; here that is done for constants
// whose value is an integer literal, which is all these programs need.
// ---------------------------------------------------------------------------

use penne::alpha::common;
use penne::alpha::error::Errors;
use penne::alpha::resolved;
use penne::alpha::value_type::ValueType;
use penne::alpha::{analyzer, expander, lexer, linter, parser};
use penne::alpha::{resolver, scoper, typer};

const FILENAME: &str = "demo.pn";

/// Lex, parse, expand and scope (label and variable references).
fn scope(source: &str) -> Result<Vec<common::Declaration>, Vec<u16>>
{
	let tokens = lexer::lex(source, FILENAME);
	let declarations = parser::parse(tokens);
	let declarations = expander::expand_one(FILENAME, declarations);
	resolver::check_surface_level_errors(&declarations)
		.map_err(|errors| errors.codes())?;
	Ok(scoper::analyze(declarations))
}

/// The depth that the scoper assigned to a constant or structure:
/// `Some(Ok(depth))`, `Some(Err(()))` if poisoned, `None` if not found.
#[allow(dead_code)]
fn depth_of(
	declarations: &[common::Declaration],
	wanted: &str,
	wanted_structure: bool,
) -> Option<Result<u32, ()>>
{
	declarations.iter().find_map(|declaration| match declaration
	{
		common::Declaration::Constant { name, depth, .. }
			if !wanted_structure && name.name == wanted =>
		{
			depth.clone().map(|x| x.map_err(|_| ()))
		}
		common::Declaration::Structure { name, depth, .. }
			if wanted_structure && name.name == wanted =>
		{
			depth.clone().map(|x| x.map_err(|_| ()))
		}
		_ => None,
	})
}

struct Frontend
{
	typer: typer::Typer,
	analyzer: analyzer::Analyzer,
	linter: linter::Linter,
}

impl Frontend
{
	fn run_sorted(
		&mut self,
		declarations: Vec<common::Declaration>,
		are_all_containers: bool,
	) -> Result<Vec<resolved::Declaration>, Errors>
	{
		for declaration in &declarations
		{
			self.typer.forward_declare_structure(declaration);
		}
		let declarations: Vec<common::Declaration> = if are_all_containers
		{
			declarations
		}
		else
		{
			let declarations: Vec<common::Declaration> = declarations
				.into_iter()
				.map(|x| self.typer.declare(x))
				.collect();
			for declaration in &declarations
			{
				self.analyzer.declare(declaration);
			}
			declarations
		};
		declarations.into_iter().fold(Ok(Vec::new()), |acc, x| {
			let declaration = if are_all_containers
			{
				self.typer.declare(x)
			}
			else
			{
				x
			};
			let declaration = self.typer.analyze(declaration);
			let declaration = self.analyzer.analyze(declaration);
			self.linter.lint(&declaration);
			let resolved = resolver::resolve(declaration);
			if let Ok(resolved::Declaration::Constant {
				name,
				value,
				value_type: ValueType::Usize,
				..
			}) = &resolved
			{
				let folded = match value
				{
					resolved::Expression::SignedIntegerLiteral {
						value,
						..
					} => usize::try_from(*value).ok(),
					resolved::Expression::BitIntegerLiteral {
						value, ..
					} => usize::try_from(*value).ok(),
					_ => None,
				};
				if let Some(folded) = folded
				{
					self.typer.resolve_named_length(name.resolution_id, folded);
				}
			}
			resolver::accumulate(acc, resolved)
		})
	}
}

/// Accept (`Ok(number of resolved declarations)`) or reject (`Err(codes)`).
fn compile(source: &str) -> Result<usize, Vec<u16>>
{
	let mut declarations = scope(source)?;
	declarations.sort_by_key(|x| scoper::get_container_depth(x, u32::MAX));
	let offset = declarations.partition_point(|x| scoper::is_container(x));
	let functions = declarations.split_off(offset);
	let containers = declarations;
	let mut frontend = Frontend {
		typer: typer::Typer::default(),
		analyzer: analyzer::Analyzer::default(),
		linter: linter::Linter::default(),
	};
	let containers = frontend.run_sorted(containers, true);
	let functions = frontend.run_sorted(functions, false);
	match resolver::combine(containers, functions)
	{
		Ok(declarations) => Ok(declarations.len()),
		Err(errors) => Err(errors.codes()),
	}
}

/// The same through the real thing, when the crate was built with LLVM.
#[cfg(feature = "alpha")]
fn compile_with_generator(source: &str) -> Result<usize, Vec<u16>>
{
	penne::alpha::compile_source(source, FILENAME)
		.map(|declarations| declarations.len())
		.map_err(|errors| errors.codes())
}

// ---------------------------------------------------------------------------
// Programs
// ---------------------------------------------------------------------------

/// All orders of the given declarations, each joined into one module.
fn permutations(declarations: &[&str]) -> Vec<String>
{
	fn go(rest: &mut Vec<String>, done: &mut Vec<String>, out: &mut Vec<String>)
	{
		if rest.is_empty()
		{
			out.push(done.join("\n"));
			return;
		}
		for i in 0..rest.len()
		{
			let x = rest.remove(i);
			done.push(x);
			go(rest, done, out);
			let x = done.pop().unwrap();
			rest.insert(i, x);
		}
	}
	let mut rest: Vec<String> =
		declarations.iter().map(|x| x.to_string()).collect();
	let mut out = Vec::new();
	go(&mut rest, &mut Vec::new(), &mut out);
	out
}



const PTR: [&str; 3] = ["struct A { p: &[N]u8 }", "const N: usize = 4;", "fn main() {}"];
const PTR2: [&str; 3] = ["struct B { q: &&[2][N]i32, r: &[M]u8 }", "const N: usize = 4;", "const M: usize = 2;"];
const PTRCYCLE: [&str; 2] = ["const N: usize = |:A|;", "struct A { p: &[N]u8 }"];
const LIST: [&str; 2] = ["struct Node { next: &Node, data: [M]u8 }", "const M: usize = 2;"];

fn verdicts(decls: &[&str]) -> Vec<Result<usize, Vec<u16>>>
{
	permutations(decls).iter().map(|source| { let r = compile(source); println!("{:?} <= {}", r, source.replace("\n", " | ")); r }).collect()
}

#[test]
fn pointer_to_named_length_array_is_order_independent()
{
	let r = verdicts(&PTR);
	assert!(r.iter().all(|x| x.is_ok()), "{:?}", r);
	let r = verdicts(&PTR2);
	assert!(r.iter().all(|x| x.is_ok()), "{:?}", r);
	let r = verdicts(&LIST);
	assert!(r.iter().all(|x| x.is_ok()), "{:?}", r);
	let r = verdicts(&PTRCYCLE);
	assert!(r.iter().all(|x| x.is_err()), "{:?}", r);
}
