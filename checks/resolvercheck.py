"""Operator and cast legality of src/alpha/resolver.rs (part of C07): `is_valid_primitive_conversion`,
`is_valid_bit_cast`, the three `valid_types` selectors with their const tables and `analyze_operand_type`,
symbolically executed from MIR for a symbolic operator and every operand type up to nesting depth 2."""
import os
import random
import re
import time
import z3

from common import REPO, log, seed, Inconclusive
import replay
import vtlib
import vtref
from mirsym import Executor, State, ValRef, Opaque, EnumV, Unsupported, bv, zand, zor, znot

VT = 'alpha::value_type::ValueType<common::Identifier>'

ARITH = vtref.INTEGRAL + ['Char8']
OPS = {
    'BinaryOp': {
        'Add': ARITH, 'Subtract': ARITH, 'Multiply': ARITH, 'Divide': ARITH, 'Modulo': ARITH,
        'BitwiseAnd': vtref.UNSIGNED_FIXED, 'BitwiseOr': vtref.UNSIGNED_FIXED, 'BitwiseXor': vtref.UNSIGNED_FIXED,
        'ShiftLeft': vtref.UNSIGNED_FIXED, 'ShiftRight': vtref.UNSIGNED_FIXED, 'AdvancePointer': ['Pointer'],
    },
    'ComparisonOp': {
        'Equals': ARITH + ['Bool', 'Pointer'], 'DoesNotEqual': ARITH + ['Bool', 'Pointer'],
        'IsGreater': ARITH + ['Bool'], 'IsGE': ARITH + ['Bool'], 'IsLess': ARITH + ['Bool'], 'IsLE': ARITH + ['Bool'],
    },
    'UnaryOp': {'Negative': vtref.SIGNED, 'BitwiseComplement': ['Bool'] + vtref.UNSIGNED_FIXED},
}
NATIVE_CMD = {'BinaryOp': 'binop', 'ComparisonOp': 'cmpop', 'UnaryOp': 'unop'}


def run(S, tier):
    """S: a vtcheck.Session (for the dump, defs, solver bookkeeping and evidence).  Appends queries and
    violations to S."""
    ex = Executor(S.dump, S.defs)
    ex.abstract_types = {'Identifier': 16}
    ex.havoc_patterns = [r'Resolvable>::resolve$', r'::to_vec$', r'Location as Clone>::clone$']
    depth = 2
    a = ex.fresh_value(VT, 'ra', depth=depth)
    b = ex.fresh_value(VT, 'rb', depth=depth)
    Ta, Tb = vtref.T(a), vtref.T(b)
    kinds = S.kinds
    universe = {}
    vtlib.all_vars(a, universe)
    vtlib.all_vars(b, universe)
    solver = z3.Solver()

    def sym(fname, args):
        try:
            return ex.call_function(S.dump.get(fname), args, z3.BoolVal(True), State())
        except (Unsupported, KeyError) as e:
            raise Inconclusive('cannot encode resolver::%s: %s' % (fname, e))

    def ask(qname, formula, text, arity, native_line):
        t = time.time()
        solver.push()
        solver.add(*ex.assumptions)
        solver.add(formula)
        r = solver.check()
        m = solver.model() if r == z3.sat else None
        solver.pop()
        dt = time.time() - t
        S.solver_s += dt
        if r == z3.unknown:
            raise Inconclusive('z3 answered unknown on %s' % qname)
        q = {'name': qname, 'result': str(r), 'seconds': round(dt, 3), 'statement': text}
        S.queries.append(q)
        if r == z3.sat:
            ta = vtlib.from_model(m, a, kinds)
            tb = vtlib.from_model(m, b, kinds) if arity == 2 else None
            line, expect = native_line(m, ta, tb)
            got = native([line])[0]
            q['counterexample'] = {'request': line, 'native': got}
            if got != expect:
                raise Inconclusive('counterexample for %s does not reproduce natively: %s -> %s (encoding says %s)'
                                   % (qname, line, got, expect))
            S.violations.append({'query': qname, 'statement': text, 'a': ta, 'b': tb, 'functions': [], 'model': m,
                                 'native_request': line, 'native_answer': got, 'confirmed': True})

    def native(lines):
        replay.write_generated({'value_types': vtlib.gen_value_types_rs(S.edef, [], [], kinds)}) if False else None
        binary, _ = replay.build()
        rc, out, err = replay.run(binary, ['resolver-eval'], stdin='\n'.join(lines) + '\n', timeout=300)
        if rc != 0:
            raise Inconclusive('native resolver evaluation failed: ' + err[-300:])
        res = out.strip().split('\n')
        if len(res) != len(lines):
            raise Inconclusive('native resolver evaluation: %d answers for %d requests' % (len(res), len(lines)))
        return res

    t0 = time.time()
    # ---- casts
    integral = lambda t: t.is_(*vtref.INTEGRAL)
    g, conv = sym('is_valid_primitive_conversion', [ValRef(a), ValRef(b)])
    conv_ref = zand(znot(vtref.same(Ta, Tb)),
                    zor(zand(integral(Ta), integral(Tb)), zand(Ta.is_('Uint8'), Tb.is_('Char8')),
                        zand(Ta.is_('Char8'), Tb.is_('Uint8')), zand(Ta.is_('Bool'), integral(Tb))))
    ask('spec:is_valid_primitive_conversion', conv != conv_ref,
        '`as` converts only integer<->integer, u8<->char8 and bool->integer, never a type to itself', 2,
        lambda m, ta, tb: ('conv %s %s' % (vtlib.wire(ta), vtlib.wire(tb)),
                           'true' if z3.is_true(m.eval(conv, model_completion=True)) else 'false'))
    g, cast = sym('is_valid_bit_cast', [ValRef(a), ValRef(b)])
    cast_ref = zor(vtref.same(Ta, Tb), zand(Ta.is_('Pointer'), Tb.is_('Pointer')))
    ask('spec:is_valid_bit_cast', cast != cast_ref, '`cast` is legal only between identical types and between pointers', 2,
        lambda m, ta, tb: ('bitcast %s %s' % (vtlib.wire(ta), vtlib.wire(tb)),
                           'true' if z3.is_true(m.eval(cast, model_completion=True)) else 'false'))
    S.functions += ['is_valid_primitive_conversion', 'is_valid_bit_cast']

    # ---- operators
    wf_fn = S.fn('is_wellformed')
    g, wf = ex.call_function(wf_fn, [ValRef(a)], z3.BoolVal(True), State())
    accept_terms = {}
    for enum_name, table in OPS.items():
        edef = S.defs.find_enum('alpha::common::' + enum_name)
        if edef is None:
            raise Inconclusive('enum %s not found' % enum_name)
        names = [v[0] for v in edef.variants]
        if sorted(names) != sorted(table):
            raise Inconclusive('%s has variants %s; the operator matrix knows %s' % (enum_name, names, sorted(table)))
        hdrs = [n for n in S.dump.function_names() if n.endswith('::valid_types')]
        f_vt = None
        for h in hdrs:
            f = S.dump.get(h)
            if f.params and f.params[0][1].endswith(enum_name):
                f_vt = f
        if f_vt is None:
            raise Inconclusive('%s::valid_types not found in the MIR dump' % enum_name)
        op = ex.fresh_value(f_vt.params[0][1], 'op_' + enum_name)
        opv = op.val
        n_h = len(ex.havoc_log)
        n_ob = len(ex.obligations)
        try:
            g1, tab = ex.call_function(f_vt, [op], z3.BoolVal(True), State())
            loc = Opaque('location')
            g2, res = ex.call_function(S.dump.get('analyze_operand_type'), [a, tab, ValRef(loc), ValRef(loc)],
                                       z3.BoolVal(True), State())
        except (Unsupported, KeyError) as e:
            raise Inconclusive('cannot encode %s::valid_types / analyze_operand_type: %s' % (enum_name, e))
        S.functions += [f_vt.name, 'analyze_operand_type']
        resolve_ok = zand(*[hv.discr == bv(0, 64) for callee, hv in ex.havoc_log[n_h:]
                            if isinstance(hv, EnumV) and 'resolve' in callee])
        ref_valid = zor(*[zand(opv.discr == bv(edef.variant_by_name(o)[1], 64), Ta.is_(*ts)) for o, ts in table.items()])
        is_ok = res.discr == bv(0, 64)
        obs = [og for k, og, msg in ex.obligations[n_ob:]]

        def line_for(m, ta, tb, enum_name=enum_name, edef=edef, opv=opv):
            d = m.eval(opv.discr, model_completion=True).as_long()
            return '%s %s %s' % (NATIVE_CMD[enum_name], edef.variant_by_discr(d)[1], vtlib.wire(ta))
        ask('operator-too-permissive:%s' % enum_name, zand(wf, g2, is_ok, znot(ref_valid)),
            'an operand type outside the documented class of the operator is rejected (E5xx)', 1,
            lambda m, ta, tb: (line_for(m, ta, tb), 'true'))
        ask('operator-too-strict:%s' % enum_name, zand(wf, ref_valid, resolve_ok, znot(zand(g2, is_ok))),
            'an operand type inside the documented class of the operator is accepted', 1,
            lambda m, ta, tb: (line_for(m, ta, tb), 'false'))
        ask('operator-no-panic:%s' % enum_name, zand(wf, zor(znot(g2), *obs)),
            'analyze_operand_type neither panics nor fails to return on well-formed operand types', 1,
            lambda m, ta, tb: (line_for(m, ta, tb), 'PANIC'))
        accept_terms[enum_name] = (opv, edef, zand(g2, is_ok), resolve_ok)
    # ---- operands of a binary operator / comparison must have the identical type
    exm = Executor(S.dump, S.defs)
    exm.abstract_types = {'Identifier': 16}
    exm.havoc_patterns = [(r'Typed>::value_type$', 2, lambda b: b in ('ValueType', 'Poison')),
                          r'Expression::location$', r'Location as Clone>::clone$']
    try:
        gm, rm = exm.call_function(S.dump.get('match_type_of_operands'),
                                   [ValRef(Opaque('left')), ValRef(Opaque('right')), ValRef(Opaque('loc'))],
                                   z3.BoolVal(True), State())
    except (Unsupported, KeyError) as e:
        raise Inconclusive('cannot encode match_type_of_operands: %s' % e)
    S.functions.append('match_type_of_operands')
    vts = [hv for callee, hv in exm.havoc_log if callee.endswith('value_type')]
    if len(vts) != 2:
        raise Inconclusive('match_type_of_operands no longer asks exactly two operands for their type (%d)' % len(vts))

    def some_ok(v):
        return zand(v.discr == bv(1, 64), v.variants['Some'][0].discr == bv(0, 64))
    lt_, rt_ = vts[0].variants['Some'][0].variants['Ok'][0], vts[1].variants['Some'][0].variants['Ok'][0]
    TL, TR = vtref.T(lt_), vtref.T(rt_)
    both = zand(some_ok(vts[0]), some_ok(vts[1]))
    okm = zand(gm, rm.discr == bv(0, 64))
    wfl = exm.call_function(S.fn('is_wellformed'), [ValRef(lt_)], z3.BoolVal(True), State())[1]
    wfr = exm.call_function(S.fn('is_wellformed'), [ValRef(rt_)], z3.BoolVal(True), State())[1]
    sm = z3.Solver()
    sm.add(*exm.assumptions)

    def askm(qname, formula, text):
        t = time.time()
        sm.push()
        sm.add(formula)
        r = sm.check()
        m = sm.model() if r == z3.sat else None
        sm.pop()
        S.solver_s += time.time() - t
        if r == z3.unknown:
            raise Inconclusive('z3 answered unknown on %s' % qname)
        q = {'name': qname, 'result': str(r), 'seconds': round(time.time() - t, 3), 'statement': text}
        S.queries.append(q)
        if r == z3.sat:
            tl = vtlib.from_model(m, lt_, kinds) if z3.is_true(m.eval(some_ok(vts[0]), model_completion=True)) else None
            tr = vtlib.from_model(m, rt_, kinds) if z3.is_true(m.eval(some_ok(vts[1]), model_completion=True)) else None
            q['counterexample'] = {'left': vtlib.wire(tl) if tl else None, 'right': vtlib.wire(tr) if tr else None}
            if tl is None or tr is None:
                raise Inconclusive('counterexample of %s has an operand without a type: not replayable' % qname)
            line = 'operands %s %s' % (vtlib.wire(tl), vtlib.wire(tr))
            got = native([line])[0]
            enc = 'true' if z3.is_true(m.eval(okm, model_completion=True)) else 'false'
            if got != enc:
                raise Inconclusive('counterexample for %s does not reproduce natively: %s -> %s (encoding %s)' % (qname, line, got, enc))
            S.violations.append({'query': qname, 'statement': text, 'a': tl, 'b': tr, 'functions': [], 'model': m,
                                 'native_request': line, 'native_answer': got, 'confirmed': True})
    askm('operands-identical', zand(okm, wfl, wfr, znot(zand(both, vtref.same(TL, TR)))),
         'a binary operation is accepted only if both operand types are known and identical (E551 otherwise)')
    res_ty = rm.variants['Ok'][0] if 'Ok' in rm.variants else None
    if res_ty is not None:
        askm('operands-result-type', zand(okm, both, znot(vtref.same(vtref.T(res_ty), TL))),
             'the type of the operation is the type of its operands')
    askm('operands-accepted', zand(both, wfl, wfr, vtref.same(TL, TR), znot(okm)),
         'operands of identical, well-formed type are accepted')
    for k, v in exm.used_models.items():
        S.ex.used_models[k] += v
    S.exec_s += time.time() - t0

    # ---- native validation of the encoding on concrete operand types
    rng = random.Random(seed() * 31 + 5)
    lv = vtlib.corpus(kinds, 2, rng, 60)
    types = lv[0] + lv[1] + rng.sample(lv[2], min(len(lv[2]), 40))
    types = [t for t in types if not any(f is None for f in t[1:])]   # unresolved names do not reach the resolver
    # analyze_operand_type asserts well-formedness: keep the well-formed samples only
    keep = []
    s3 = z3.Solver()
    for t in types:
        s3.push()
        for var, val in vtlib.assignment(a, t, kinds, []):
            s3.add(var == val)
        if s3.check() == z3.sat and z3.is_true(s3.model().eval(wf, model_completion=True)):
            keep.append(t)
        s3.pop()
    types = keep
    lines, expect = [], []
    for enum_name, (opv, edef, acc, resolve_ok) in accept_terms.items():
        for oname in OPS[enum_name]:
            for t in types:
                pairs = vtlib.assignment(a, t, kinds, [])
                pairs.append((opv.discr, bv(edef.variant_by_name(oname)[1], 64)))
                lines.append('%s %s %s' % (NATIVE_CMD[enum_name], oname, vtlib.wire(t)))
                expect.append((acc, resolve_ok, pairs))
    pairs_tt = [(rng.choice(types), rng.choice(types)) for _ in range(150 if tier == 'quick' else 1000)]
    for x, y in pairs_tt:
        for cmd, term in (('conv', conv), ('bitcast', cast)):
            pairs = vtlib.assignment(a, x, kinds, [])
            vtlib.assignment(b, y, kinds, pairs)
            lines.append('%s %s %s' % (cmd, vtlib.wire(x), vtlib.wire(y)))
            expect.append((term, None, pairs))
    res = native(lines)
    bad = []
    s2 = z3.Solver()
    for (term, rok, pairs), line, r in zip(expect, lines, res):
        s2.push()
        for var, val in pairs:
            s2.add(var == val)
        if rok is not None:
            s2.add(rok)
        if s2.check() != z3.sat:
            s2.pop()
            continue
        v = s2.model().eval(term, model_completion=True)
        s2.pop()
        sv = 'true' if z3.is_true(v) else 'false'
        if r == 'PANIC' and rok is not None:
            continue        # Resolvable::resolve (havoc in the encoding) rejects unresolved placeholder types
        if sv != r:
            bad.append((line, sv, r))
    if bad:
        raise Inconclusive('resolver encoding disagrees with the native functions on %d of %d cases, e.g. %r'
                           % (len(bad), len(lines), bad[:3]))
    S.validated += len(lines)
    for k, v in ex.used_models.items():
        S.ex.used_models[k] += v
    S.ex.stats['blocks'] += ex.stats['blocks']
