"""C15 (lexer half): the second-generation lexer never panics (arithmetic overflow, slice/array index,
unwrap/expect, unreachable), never overruns its token, payload or error buffers, always terminates within
the unrolling bound and always returns Ok with at most len+2 tokens, for every byte string of a template.
The parser, header extraction and XML dumps are outside this check."""
import lexcheck
from lexcheck import SYM, T

PROP = 'C15'
DEC_MAX_DECADE = '34028236692093846346337460743176821145'     # floor(u128::MAX / 10)


def templates(tier):
    n = 4 if tier == 'quick' else 5
    ts = [('all-%d' % n, [SYM] * n, 1),
          ('decimal-last-decade', T(DEC_MAX_DECADE, 2), 38),
          ('hex-32-digits', T('0x' + 'f' * 31, 2), 33),
          ('binary-128-digits', T('0b' + '1' * 127, 2), 129),
          ('unicode-escape', T('"\\u{10FFF', 3), 9),
          ('unicode-nine-digits', T('"\\u{FFFFFFF', 3), 11),
          ('hex-escape', T("'\\x", 3), 3),
          ('dense-errors', T('@#$`~?', 2), 6)]
    if tier != 'quick':
        ts += [('decimal-39-digits', T(DEC_MAX_DECADE + '5', 2), 39), ('binary-129-digits', T('0b' + '0' * 128, 2), 130),
               ('unicode-long', T('"\\u{0000000', 3), 11)]
    return ts


def entry_templates(tier):
    """Templates run through the public entry point lex() (Tokens::empty, buffer, set_tokens_len)."""
    n = 3 if tier == 'quick' else 4
    # capacity-edge: with the small-buffer hook the token capacity is 32; 30..33 one-byte tokens + 2 EndOfSource
    # cross capacity-1, capacity and the E103 overflow path
    return [('all-%d' % n, [SYM] * n, 1), ('dense-errors', T('@#$`~?', 2), 6), ('payloads', T('1 2 0x3 ', 2), 8),
            ('capacity-edge', T(';' * 28, 3), 28)]


WANT = ({'returns-ok'}, ('impl-no-', 'slot-'))


def run(tier):
    return lexcheck.run_suite(
        PROP, tier, templates(tier), WANT,
        'delta::lexer::lex_source_into_buffer with the real TokensBuffer::push/push_token/push_error/push_integer_payload '
        'symbolically executed from MIR; every assert terminator (overflow, index), modelled unwrap/expect/panic and '
        '`unreachable` becomes an obligation that must be unsatisfiable; loop unrolling bounds carry unwinding obligations.',
        ['the second-generation parser, build_header and the XML dumps', 'uninitialised reads as such',
         'E102/E103 (sources above the buffer floors)', 'inputs that do not fit a template'],
        20 if tier == 'quick' else 100,
        entry_templates=entry_templates(tier))


def replay_file(path):
    return lexcheck.replay_file(PROP, path)
