"""C13 (code-catalogue clause): every code `Error::code` can return has a section in docs/errors.md.

Deciding step: `Error::code` is symbolically executed from the MIR of /repo's current tree over a
fully symbolic `Error` (discriminant and, for `Lexical`, the nested lexer-error discriminant are
free variables); z3 is asked for a value whose code is not in the catalogue read from the current
docs/errors.md, and all models are enumerated by blocking clauses.  The complete (variant -> code)
table obtained from the solver is validated against the native function on every variant.
"""
import os
import re
import time
import z3

from common import (REPO, VERIF, log, mir_dump, write_evidence, write_replay, known_keys, Inconclusive,
                    cross_check_smt2)
import replay
from mirparse import MirDump
from rustdefs import RustDefs
from mirsym import Executor, State, ValRef, bv

PROP = 'C13'


def catalogue():
    cat = {}
    for ln in open(os.path.join(REPO, 'docs', 'errors.md')):
        m = re.match(r'^## (?:Error|Lint|Warning) code ([EL])(\d+)\s*$', ln)
        if m:
            cat[int(m.group(2))] = m.group(1)
    return cat


def letter_for(code):
    return 'L' if 1000 <= code <= 2999 else 'E'


def run(tier):
    t0 = time.time()
    path, dump_s = mir_dump()
    dump = MirDump(path)
    defs = RustDefs(os.path.join(REPO, 'src'))
    ex = Executor(dump, defs)
    names = [n for n in dump.function_names() if re.search(r'error\.rs[^>]*>::code$', n)]
    if len(names) != 1:
        raise Inconclusive('Error::code not found in the MIR dump (%r)' % names)
    fn = dump.get(names[0])
    edef = defs.find_enum('alpha::error::Error')
    ledef = defs.find_enum('alpha::lexer::Error')
    e = ex.fresh_value('alpha::error::Error', 'e', expand=lambda b: b == 'Error')
    st = State()
    g, code = ex.call_function(fn, [ValRef(e)], z3.BoolVal(True), st)
    sym_s = time.time() - t0 - dump_s
    queries, solver_s = 0, 0.0

    def check(s):
        nonlocal queries, solver_s
        t = time.time()
        r = s.check()
        solver_s += time.time() - t
        queries += 1
        if r == z3.unknown:
            raise Inconclusive('z3 answered unknown')
        return r

    # (1) the function returns on every value and hits no panic/unreachable
    s = z3.Solver()
    s.add(*ex.assumptions)
    s.push()
    s.add(z3.Or(z3.Not(g), *[og for _, og, _ in ex.obligations]))
    total_ok = check(s) == z3.unsat
    s.pop()
    if not total_ok:
        raise Inconclusive('Error::code can panic or fall through on some variant; table not total')

    # (2) enumerate the whole table with blocking clauses
    lex_variant = [v for v in edef.variants if any(t.endswith('Error') for _, t in v[2])]
    lex_name = lex_variant[0][0] if lex_variant else None
    sub = e.variants[lex_name][[i for i, (_, t) in enumerate(lex_variant[0][2]) if t.endswith('Error')][0]] if lex_name else None
    # rows are (variant, lexical sub-error) -> set of codes: a code may depend on other payload fields
    table_all = {}
    s.push()
    while check(s) == z3.sat:
        m = s.model()
        d = m.eval(e.discr, model_completion=True).as_long()
        _, vname, _ = edef.variant_by_discr(d)
        c = m.eval(code, model_completion=True).as_long()
        if vname == lex_name:
            sd = m.eval(sub.discr, model_completion=True).as_long()
            _, sname, _ = ledef.variant_by_discr(sd)
            table_all.setdefault((vname, sname), set()).add(c)
            s.add(z3.Not(z3.And(e.discr == bv(d, 64), sub.discr == bv(sd, 64), code == bv(c, 16))))
        else:
            table_all.setdefault((vname, '-'), set()).add(c)
            s.add(z3.Not(z3.And(e.discr == bv(d, 64), code == bv(c, 16))))
        if sum(len(v) for v in table_all.values()) > 2000:
            raise Inconclusive('Error::code takes more than 2000 (variant, code) combinations')
    s.pop()
    table = {k: sorted(v)[0] for k, v in table_all.items()}
    payload_dependent = {('%s/%s' % k): sorted(v) for k, v in table_all.items() if len(v) > 1}

    # (3) validate the translation natively on every row
    replay.write_generated({'error_codes': replay.gen_error_codes(defs)})
    binary, build_s = replay.build()
    rc, out, err = replay.run(binary, ['error-codes'])
    if rc != 0:
        raise Inconclusive('native replay failed: ' + err[-500:])
    native = {}
    for ln in out.split('\n'):
        p = ln.split()
        if len(p) == 3:
            native[(p[0], p[1])] = int(p[2])
    diff = {k: (sorted(table_all.get(k, [])), native.get(k)) for k in set(table_all) | set(native)
            if native.get(k) not in table_all.get(k, set())}
    if diff:
        raise Inconclusive('symbolic table and native Error::code disagree: %r' % diff)

    # (4) the property query: a value whose code has no heading (or the wrong letter)
    cat = catalogue()
    if len(cat) < 10:
        raise Inconclusive('could not read the catalogue from docs/errors.md')
    s.push()
    s.add(z3.And(*[code != bv(c, 16) for c, letter in cat.items() if letter == letter_for(c)]))
    offenders = []
    while check(s) == z3.sat:
        m = s.model()
        c = m.eval(code, model_completion=True).as_long()
        rows = sorted(k for k, v in table_all.items() if c in v)
        offenders.append((c, rows))
        s.add(code != bv(c, 16))
    final_smt2 = '(set-logic ALL)\n' + s.to_smt2()
    s.pop()
    xres = cross_check_smt2(final_smt2, 'unsat')

    # range clause: codes lie in the ranges build_report maps to a letter
    s.push()
    s.add(z3.Or(z3.ULT(code, bv(100, 16)), z3.UGT(code, bv(2999, 16))))
    in_range = check(s) == z3.unsat
    range_witness = None
    if not in_range:
        range_witness = s.model().eval(code, model_completion=True).as_long()
    s.pop()

    # informational: documented codes no variant produces
    produced = set(c for v in table_all.values() for c in v)
    orphan_docs = sorted(c for c in cat if c not in produced)

    known = known_keys(PROP)
    violations = []
    for c, rows in sorted(offenders):
        key = 'undocumented-code:%s%d' % (letter_for(c), c)
        what = '%s%d returned by Error::code for %s has no section in docs/errors.md' % (
            letter_for(c), c, ', '.join('%s%s' % (v, '' if s_ == '-' else '/' + s_) for v, s_ in rows))
        if key in known:
            log('KNOWN-FINDING: property=%s %s' % (PROP, what))
        else:
            rp = write_replay(PROP, key, {'property': PROP, 'kind': 'undocumented-code', 'code': c, 'variants': rows,
                                          'native_code': [native.get(r) for r in rows],
                                          'how': 'pv_replay error-codes prints the native table; '
                                                 'grep the heading in docs/errors.md'})
            violations.append((key, what, rp))
    if not in_range:
        key = 'code-out-of-range:%d' % range_witness
        if key not in known:
            rp = write_replay(PROP, key, {'property': PROP, 'kind': 'code-out-of-range', 'code': range_witness})
            violations.append((key, 'Error::code returns %d outside 100..=2999' % range_witness, rp))

    wall = time.time() - t0
    samples = [{'variant': k[0], 'lexical_error': k[1], 'code': v, 'documented': v in cat}
               for k, v in sorted(table.items())[:6]]
    cov = {
        'states': len(table),
        'transitions': int(ex.stats['blocks']),
        'traces_validated_against_impl': len(native),
        'samples': samples,
        'exhaustive': True,
        'explanation': 'Error::code symbolically executed from MIR over a symbolic Error (all %d variants x %d lexical '
                       'sub-errors); catalogue of %d headings read from docs/errors.md; all models of "code not in '
                       'catalogue" enumerated by blocking clauses until unsat; final unsat query re-run on '
                       'z3 4.8.12 and cvc5.' % (len(edef.variants), len(ledef.variants), len(cat)),
        'functions_encoded': [fn.name],
        'bounds': 'none needed: loop-free match over two discriminants; payload fields are never read (opaque)',
        'queries_discharged': queries,
        'solver_time_s': round(solver_s, 3),
        'symbolic_execution_s': round(sym_s, 3),
        'mir_dump_s': round(dump_s, 2),
        'cross_check': xres,
        'table_rows': len(table),
        'payload_dependent_codes': payload_dependent,
        'undocumented_codes': ['%s%d' % (letter_for(c), c) for c, _ in sorted(offenders)],
        'documented_codes_never_produced': orphan_docs,
        'std_models_used': dict(ex.used_models),
        'outside_claim': ['location lies in the file and covers the offending text', 'rendering in every configuration',
                          'run-to-run determinism'],
    }
    write_evidence(PROP, tier, 'model_checking', cov, wall,
                   ['rustc nightly MIR (-Zunpretty=mir, dev profile) is a faithful rendering of the function',
                    'mirsym MIR interpreter (validated on every row of the table against the native function)',
                    'the catalogue is the set of "## Error code <E|L>nnn" headings of docs/errors.md',
                    'letter convention: 1000..=2999 -> L, otherwise E (as in Error::build_report)'],
                   violations=len(violations))
    log('C13: %d table rows, %d headings, %d undocumented (%d known), %d queries, solver %.2fs, wall %.1fs'
        % (len(table), len(cat), len(offenders), len(offenders) - len([v for v in violations if v[0].startswith('undoc')]),
           queries, solver_s, wall))
    for key, what, rp in violations:
        log('VIOLATION property=%s replay=%s' % (PROP, rp))
        log('  ' + what)
    return 1 if violations else 0


def replay_file(path):
    """Re-evaluate a recorded counterexample natively: print the native code of the variants and
    whether the current docs/errors.md has a heading for it."""
    import json
    r = json.load(open(path))
    defs = RustDefs(os.path.join(REPO, 'src'))
    replay.write_generated({'error_codes': replay.gen_error_codes(defs)})
    binary, _ = replay.build()
    rc, out, err = replay.run(binary, ['error-codes'])
    native = {}
    for ln in out.split('\n'):
        p = ln.split()
        if len(p) == 3:
            native[(p[0], p[1])] = int(p[2])
    cat = catalogue()
    bad = 0
    for v in r.get('variants', []):
        c = native.get(tuple(v))
        ok = c in cat and cat[c] == letter_for(c)
        log('%s/%s -> native code %s, documented: %s' % (v[0], v[1], c, ok))
        bad += 0 if ok else 1
    if bad:
        log('VIOLATION property=%s replay=%s' % (PROP, path))
    return 1 if bad else 0
