"""C11: (1) type-legality clause: which types are legal in which declaration position, decided for every type up to a
nesting depth by symbolic execution of src/alpha/value_type.rs against vtref.py; (2) containment clause
(containercheck.py): cycle detection, containment closure and container depths of
src/alpha/scoper/variable_references.rs as one step from an arbitrary consistent analyzer state."""
import time
import z3

from common import log, write_evidence, write_replay, known_keys, Inconclusive
import vtcheck
import vtref
import vtlib
from mirsym import bv, zand, zor, znot

PROP = 'C11'


def run(tier):
    depth = 3 if tier == 'quick' else 6
    S = vtcheck.Session(PROP, depth)
    a = S.Ta
    specs = [
        ('is_wellformed', vtref.wf, 'E350: a compound type is valid iff its components are valid and every array/slice element has a compile-time size'),
        ('can_be_returned', vtref.can_be_returned, 'E351: structs, arrays, slices and views cannot be returned; void can'),
        ('can_be_variable', vtref.can_be_variable, 'E352: void, slice pointers, endless arrays and views cannot be variables'),
        ('can_be_constant', vtref.can_be_constant, 'E353: void and unsized array types cannot be constants'),
        ('can_be_parameter', vtref.can_be_parameter, 'E354: void, arrays and structs by value cannot be parameters'),
        ('can_be_struct_member', vtref.can_be_struct_member, 'E356: struct members must be sized, non-void, non-view'),
        ('can_be_word_member', vtref.can_be_word_member, 'E356: word members are fixed-size integers, bool, char8 or words'),
        ('can_be_sized', vtref.can_be_sized, 'E359: types with a statically known size'),
    ]
    for fname, ref, text in specs:
        v = S.run(fname, 1)
        S.expect_unsat('spec:%s' % fname, v != ref(a), text, 1, [(fname, 1)])
    # documented consequences, stated without the reference model
    wf = S.run('is_wellformed', 1)
    for fname in ['can_be_returned', 'can_be_variable', 'can_be_constant', 'can_be_parameter',
                  'can_be_struct_member', 'can_be_word_member']:
        v = S.run(fname, 1)
        S.expect_unsat('implies-wf:%s' % fname, zand(v, znot(wf)), '%s(t) implies is_wellformed(t)' % fname, 1,
                       [(fname, 1), ('is_wellformed', 1)])
    # the documented E350 rule for `[]T` as an element (known finding, see known_findings.json): reported as KNOWN-FINDING while
    # the code accepts such types, silently gone once it does not
    S.expect_unsat('docs-E350:array-view-as-element', zand(wf, vtref.has_view_element(a)),
                   'E350 (docs/errors.md): `[N]T` and `[]T` need an element of compile-time size, `[]T` has none, so `[10][]u8` and '
                   '`[][]i32` are invalid', 1, [('is_wellformed', 1)])
    void = a.is_('Void')
    for fname in ['can_be_variable', 'can_be_constant', 'can_be_parameter', 'can_be_struct_member', 'can_be_word_member']:
        S.expect_unsat('void-illegal:%s' % fname, zand(void, S.run(fname, 1)), 'void is legal only as a return type', 1, [(fname, 1)])
    S.expect_unsat('void-returnable', zand(void, znot(S.run('can_be_returned', 1))), 'void may be returned', 1, [('can_be_returned', 1)])
    ks = S.run('known_size_in_bytes_as_word_member', 1)
    size = ks.variants['Some'][0]
    is_some = ks.discr == bv(1, 64)
    wm = S.run('can_be_word_member', 1)
    ok_sizes = zor(*[size == bv(n, 64) for n in (1, 2, 4, 8, 16)])
    S.expect_unsat('word-member-size', zand(wm, znot(a.is_('Word')), znot(zand(is_some, ok_sizes))),
                   'a non-word word member has a known size of 1, 2, 4, 8 or 16 bytes', 1,
                   [('can_be_word_member', 1), ('known_size_in_bytes_as_word_member', 1)])
    # every element of a well-formed array-like is sized
    c = a.child()
    if c is not None:
        S.ex.memo_pure = True
        from mirsym import ValRef, State
        f = S.fn('can_be_sized')
        # can_be_sized on the component: reuse the executor on the child value
        g, sized_child = S.ex.call_function(f, [ValRef(c.v)], z3.BoolVal(True), State())
        S.expect_unsat('array-element-sized',
                       zand(wf, a.is_('Array', 'ArrayWithNamedLength', 'Slice', 'SlicePointer', 'EndlessArray'),
                            znot(zor(sized_child, c.is_('Arraylike')))),
                       'E350: the element type of a well-formed array, slice or endless array has a known size', 1,
                       [('is_wellformed', 1)])
    n_un = 400 if tier == 'quick' else 3000
    S.validate([f for f, _, _ in specs] + ['known_size_in_bytes_as_word_member'], [], n_un, 0)
    import containercheck
    import typercheck
    # the typer clauses run in a forked child while the containment clauses run here (both mostly wait for solver processes)
    import multiprocessing
    mp = multiprocessing.get_context('fork')
    rx, tx = mp.Pipe(duplex=False)

    def child():
        try:
            n_q, n_v, n_f = len(S.queries), len(S.violations), len(S.functions)
            v0, s0, e0 = S.validated, S.solver_s, S.exec_s
            bounds = typercheck.run(S, tier)
            import declarecheck
            bounds.update(declarecheck.run(S, tier))
            viol = [{k: v for k, v in x.items() if k != 'model'} for x in S.violations[n_v:]]
            tx.send(('ok', bounds, S.queries[n_q:], viol, S.functions[n_f:], S.validated - v0, S.solver_s - s0, S.exec_s - e0))
        except Inconclusive as e:
            tx.send(('inconclusive', str(e)))
        except BaseException as e:      # noqa: an internal error in the child must not look like a pass
            tx.send(('error', '%s: %s' % (type(e).__name__, e)))
        finally:
            tx.close()
    proc = mp.Process(target=child)
    proc.start()
    try:
        S.container_bounds = containercheck.run(S, tier)
    except BaseException:
        proc.terminate()
        raise
    if not rx.poll(3600):
        proc.terminate()
        raise Inconclusive('the typer clauses did not finish')
    msg = rx.recv()
    proc.join()
    if msg[0] == 'inconclusive':
        raise Inconclusive(msg[1])
    if msg[0] != 'ok':
        raise RuntimeError('typer clauses: ' + msg[1])
    _tag, t_bounds, t_queries, t_viol, t_funcs, t_val, t_solver, t_exec = msg
    S.container_bounds.update(t_bounds)
    S.queries += t_queries
    S.violations += t_viol
    S.functions += t_funcs
    S.validated += t_val
    S.solver_s += t_solver
    S.exec_s += t_exec
    if tier != 'quick':
        # more containers, leaf types only (the number of containers is cheap, the type depth is not)
        more = containercheck.run(S, tier, bounds=(6, 1), sfx='@6x1')
        S.container_bounds['second_configuration'] = {'containers': more['containers'], 'container_type_depth': more['container_type_depth']}
    return finish(S, tier, ['order independence of whole programs beyond the depth mechanism and the per-declaration rules decided here',
                            'analyzer states after the first reported containment cycle (the module is rejected already)',
                            'resolution ids of 8 and above (the HashSet<u32> model is an 8-bit set)'])


def finish(S, tier, extra_outside=None):
    known = known_keys(S.prop)
    out_viol = []
    known_hits = []
    for v in S.violations:
        key = '%s:%s%s' % (v['query'], vtlib.wire(v['a']), (',' + vtlib.wire(v['b'])) if v['b'] else '')
        if v.get('key_extra'):
            key = '%s:%s' % (v['query'], v['key_extra'])
        conf = {'request': v.get('native_request'), 'answer': v.get('native_answer')} if v.get('confirmed') else S.confirm(v)
        what = '%s fails for a=%s%s (%s)' % (v['query'], vtlib.wire(v['a']),
                                               (' b=' + vtlib.wire(v['b'])) if v['b'] else '', v['statement'])
        if v.get('key_extra'):
            what = '%s fails for [%s] -> native [%s] (%s)' % (v['query'], v['native_request'], v['native_answer'], v['statement'])
        if key in known or ('query:' + v['query']) in known:
            log('KNOWN-FINDING: property=%s %s' % (S.prop, what))
            known_hits.append(v['query'])
            continue
        rp = write_replay(S.prop, key, {'property': S.prop, 'query': v['query'], 'statement': v['statement'],
                                        'a': vtlib.wire(v['a']), 'b': vtlib.wire(v['b']) if v['b'] else None,
                                        'a_rust': vtlib.rust_expr(v['a'], S.kinds),
                                        'b_rust': vtlib.rust_expr(v['b'], S.kinds) if v['b'] else None,
                                        'functions': v['functions'], 'native_vs_encoding': conf})
        out_viol.append((what, rp))
    wall = time.time() - S.t0
    nq = len(S.queries)
    cov = {
        'states': nq,
        'transitions': int(S.ex.stats['blocks']),
        'traces_validated_against_impl': S.validated,
        'samples': [{k: q[k] for k in q if k in ('name', 'result', 'seconds', 'statement', 'counterexample')} for q in S.queries[:8]],
        'explanation': 'Functions of impl ValueType<I> symbolically executed from MIR over symbolic types of nesting depth <= %d '
                       '(arbitrary lengths, identifiers as 16-bit tokens); each query asserts the negation of a clause and must be '
                       'unsat. The encoding is validated on concrete types against the native functions before any verdict is used.' % S.depth,
        'functions_encoded': sorted(set(S.functions)),
        'bounds': dict({'type_nesting_depth': S.depth, 'outside': 'types nested deeper than %d' % S.depth}, **getattr(S, 'container_bounds', {})),
        'queries_discharged': nq,
        'queries_unsat': len([q for q in S.queries if q['result'] == 'unsat']),
        'solver_time_s': round(S.solver_s, 3),
        'symbolic_execution_s': round(S.exec_s, 3),
        'mir_dump_s': round(S.dump_s, 2),
        'cross_check': S.cross,
        'native_comparisons': S.validated,
        'native_comparisons_nontrivial': getattr(S, 'validated_interesting', 0),
        'std_models_used': dict(S.ex.used_models),
        'inlined_calls': sum(S.ex.inlined.values()),
        'memoised_pure_calls': int(S.ex.stats['memo_hits']),
        'outside_claim': extra_outside or [],
    }
    nw = len([q for q in S.queries if q.get('expected') == 'sat'])
    cov['vacuity_witnesses_sat'] = nw
    cov['known_findings_reported'] = known_hits
    write_evidence(S.prop, tier, 'model_checking', cov, wall,
                   ['rustc nightly MIR dump (dev profile, UB-check instrumentation passes disabled)',
                    'mirsym interpreter and its std models (listed under std_models_used), validated natively on this run',
                    'derived PartialEq/Clone are structural equality/identity',
                    'vtref.py is the reference reading of the documented rules',
                    'generic parameter I modelled as a 16-bit token with equality only'],
                   violations=len(out_viol))
    log('%s: depth %d, %d queries (%d unsat%s), %d native comparisons, solver %.2fs, exec %.2fs, wall %.1fs'
        % (S.prop, S.depth, nq, cov['queries_unsat'], (', %d reachability witnesses sat as required' % nw) if nw else '',
           S.validated, S.solver_s, S.exec_s, wall))
    for what, rp in out_viol:
        log('VIOLATION property=%s replay=%s' % (S.prop, rp))
        log('  ' + what)
    return 1 if out_viol else 0


def replay_file(path):
    import json
    r = json.load(open(path))
    req = (r.get('native_vs_encoding') or {}).get('request') or ''
    if req.startswith(('step ', 'depths ')):
        import containercheck
        S = vtcheck.Session(PROP, 1)
        got = containercheck.native(S, [req])[0]
        log('native container-eval [%s] -> [%s]   [recorded: %s]' % (req, got, r['native_vs_encoding'].get('answer')))
        log('statement violated when recorded: %s' % r.get('statement'))
        if got == r['native_vs_encoding'].get('answer'):
            log('VIOLATION property=%s replay=%s' % (PROP, path))
            return 1
        return 0
    return vtcheck.replay_file(PROP, path)
