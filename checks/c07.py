"""C07 (relations-and-tables clause): the type relations that decide which operand / argument types are
accepted, decided for every pair of types up to a nesting depth."""
import z3

from common import log, Inconclusive
import vtcheck
import vtref
from c11 import finish
from mirsym import bv, zand, zor, znot

PROP = 'C07'


def run(tier):
    depth = 3 if tier == 'quick' else 5
    S = vtcheck.Session(PROP, depth)
    a, b = S.Ta, S.Tb
    rel = [
        ('equals', vtref.equals, 'type identity: same constructor, names, lengths and components; char8 and u8 are aliases'),
        ('can_coerce_into', vtref.can_coerce_into,
         'the only implicit value coercions are [N]T->[]T, [N]T->view of [...]T, []T->view of [...]T, &[]T->&[...]T, struct S->view of S'),
        ('can_coerce_address_into', vtref.can_coerce_address_into,
         'the only address coercions are &[N]T -> &[]T and &[N]T -> &[...]T'),
        ('can_autoderef_into', vtref.can_autoderef_into, 'autoderef strips pointer/view layers and then applies identity or a documented coercion'),
        ('can_subautoderef_into', vtref.sub_autoderef, 'one autoderef step'),
        ('is_like', vtref.is_like, 'array forms match the placeholder [_]T component-wise'),
        ('can_be_declared_as', vtref.can_be_declared_as, 'an inferred type matches a declared type only if identical or an array form of the declared placeholder'),
        ('can_be_concretization_of', vtref.can_be_concretization_of, 'concretization relaxes only [_]T and unresolved struct/word names'),
    ]
    impl = {}
    for fname, ref, text in rel:
        impl[fname] = S.run(fname, 2)
        S.expect_unsat('spec:%s' % fname, impl[fname] != ref(a, b), text, 2, [(fname, 2)])
    prim = vtref.PRIMS
    both_prim = zand(a.is_(*prim), b.is_(*prim))
    distinct = a.v.discr != b.v.discr
    alias = zor(zand(a.is_('Char8'), b.is_('Uint8')), zand(a.is_('Uint8'), b.is_('Char8')))
    for fname in ['can_coerce_into', 'can_coerce_address_into', 'can_autoderef_into', 'can_be_declared_as',
                  'can_be_concretization_of', 'is_like']:
        S.expect_unsat('no-primitive-conversion:%s' % fname, zand(both_prim, distinct, impl[fname]),
                       'no relation ever connects two distinct primitive types', 2, [(fname, 2)])
    S.expect_unsat('no-primitive-conversion:equals', zand(both_prim, distinct, znot(alias), impl['equals']),
                   'distinct primitive types are equal only as the alias char8/u8', 2, [('equals', 2)])
    S.expect_unsat('coercion-changes-type', zand(impl['can_coerce_into'], impl['equals']),
                   'a coercion never relates a type to itself', 2, [('can_coerce_into', 2), ('equals', 2)])
    S.expect_unsat('coercion-target-shape', zand(impl['can_coerce_into'], znot(b.is_('Slice', 'View', 'Pointer'))),
                   'coercion targets are slices, views and pointers to endless arrays only', 2, [('can_coerce_into', 2)])
    S.expect_unsat('coercion-source-shape',
                   zand(impl['can_coerce_into'], znot(a.is_('Array', 'ArrayWithNamedLength', 'Slice', 'SlicePointer', 'Struct'))),
                   'only arrays, slices, slice pointers and structs coerce', 2, [('can_coerce_into', 2)])
    S.expect_unsat('address-coercion-shape',
                   zand(impl['can_coerce_address_into'], znot(zand(a.is_('Array', 'ArrayWithNamedLength'), b.is_('SlicePointer', 'Pointer')))),
                   'only the address of an array coerces, into a slice pointer or pointer', 2, [('can_coerce_address_into', 2)])
    # symmetry of identity (swap the arguments by re-running on (b, a))
    from mirsym import ValRef, State
    f = S.fn('equals')
    g, eq_ba = S.ex.call_function(f, [ValRef(S.b), ValRef(S.a)], z3.BoolVal(True), State())
    S.expect_unsat('equals-symmetric', impl['equals'] != eq_ba, 'type identity is symmetric', 2, [('equals', 2)])
    g, eq_aa = S.ex.call_function(f, [ValRef(S.a), ValRef(S.a)], z3.BoolVal(True), State())
    S.expect_unsat('equals-reflexive', znot(eq_aa), 'type identity is reflexive', 1, [])
    n_pairs = 600 if tier == 'quick' else 5000
    S.validate([], vtcheck.PUB_BINARY, 0, n_pairs)
    import resolvercheck
    resolvercheck.run(S, tier)
    # argument / parameter pairs of a call (E510-E513): function_calls::use_function as one call
    import argcheck
    argcheck.run(S, tier)
    return finish(S, tier, ['put_symbol and the typer code that applies the relations to real expressions: only the relations they consult, '
                            'match_type_of_operands and use_function (one call, <= 3/5 parameters) are decided here'])


def replay_file(path):
    import json
    r = json.load(open(path))
    req = (r.get('native_vs_encoding') or {}).get('request') or ''
    if req.startswith('call '):
        import argcheck
        got = argcheck.native([req])[0]
        log('native call-eval [%s] -> [%s]   [recorded: %s]' % (req, got, r['native_vs_encoding'].get('answer')))
        log('statement violated when recorded: %s' % r.get('statement'))
        if got == r['native_vs_encoding'].get('answer'):
            log('VIOLATION property=%s replay=%s' % (PROP, path))
            return 1
        return 0
    return vtcheck.replay_file(PROP, path)
