"""C09 (literal values as lexed by the second-generation lexer, and the range-lint bounds): every integer,
character and string literal that fits a boundary template is lexed to exactly the documented value/type or
rejected with the documented code, for every completion of the template."""
import lexcheck
from lexcheck import SYM, T

PROP = 'C09'
DEC_MAX_DECADE = '34028236692093846346337460743176821145'


def templates(tier):
    k = 2 if tier == 'quick' else 3
    ts = [('decimal-last-decade', T(DEC_MAX_DECADE, 2), 38),
          ('decimal-underscores', T('1_000', k), 5),
          ('decimal-max-with-separators', T('340_282_366_920_938_463_463_374_607_431_768_211_4', 2), 49),
          ('decimal-40-characters', T('1' + '_' * 37, 3), 38),
          ('hex-32-digits', T('0x' + 'f' * 31, 2), 33),
          ('hex-leading-zeros', T('0x' + '0' * 30 + 'A', 2), 33),
          ('binary-128-digits', T('0b' + '1' * 127, 2), 129),
          ('binary-leading-zero', T('0b0' + '1' * 126, 2), 129),
          ('zero-prefix', T('0', k + 1), 1),
          ('suffix-u', T('255u', k), 4),
          ('suffix-i12', T('1i12', 2), 4),
          ('suffix-usiz', T('0x10usiz', 2), 8),
          ('char-hex-escape', T("'\\x", k + 1), 3),
          ('char-escape', T("'\\", k + 1), 2),
          ('char-two', T("'a", k), 2),
          ('string-unicode-max', T('"\\u{10FFF', 3), 9),
          ('string-unicode-surrogate', T('"\\u{D7F', 3), 7),
          ('string-escape', T('"\\', k + 1), 2)]
    if tier != 'quick':
        ts += [('decimal-39-digits', T(DEC_MAX_DECADE + '5', 2), 39), ('binary-129-digits', T('0b' + '0' * 128, 2), 130),
               ('all-4', [SYM] * 4, 1)]
    return ts


WANT = ({'token-count', 'token-kind', 'token-value-type', 'token-has-payload', 'token-payload', 'error-count', 'error-list', 'reference-in-range', 'returns-ok', 'impl-no-panic'}, ('ref-',))


def lint_extra(tier):
    """Range-lint clause: min/max tables and the literal arms of the linter (lintcheck.py)."""
    import vtcheck
    import vtlib
    import lintcheck
    from common import write_replay, known_keys, log
    S = vtcheck.Session(PROP, 2)
    lintcheck.run(S, tier)
    known = known_keys(PROP)
    viol = []
    for v in S.violations:
        key = '%s:%s' % (v['query'], v.get('native_request') or vtlib.wire(v['a']))
        what = '%s fails: %s -> %s (%s)' % (v['query'], v.get('native_request') or vtlib.wire(v['a']),
                                             v.get('native_answer'), v['statement'])
        if not v.get('confirmed'):
            S.confirm(v)
        if key in known:
            log('KNOWN-FINDING: property=%s %s' % (PROP, what))
            continue
        rp = write_replay(PROP, key, {'property': PROP, 'query': v['query'], 'statement': v['statement'],
                                      'request': v.get('native_request'), 'native': v.get('native_answer'),
                                      'type': vtlib.wire(v['a'])})
        viol.append((what, rp))
    return {'queries': [dict(q, template='range-lint') for q in S.queries], 'violations': viol, 'validated': S.validated,
            'functions': S.functions, 'solver_s': S.solver_s, 'exec_s': S.exec_s, 'blocks': int(S.ex.stats['blocks']),
            'models_used': dict(S.ex.used_models),
            'coverage': {'range_lint': 'min_i128/max_u128 proved equal to the integer ranges for every type; the literal arms '
                                       'of <Expression as Lintable>::lint proved to push L1142 iff the value is out of range, '
                                       'for every i128/u128 value and every integer type, char8 and pointer-like type'}}


def run(tier):
    return lexcheck.run_suite(
        PROP, tier, templates(tier), WANT,
        'Boundary literal templates (largest decimal decade, 32 hex digits, 128 binary digits, every suffix stem, escape '
        'forms) completed by 2-4 symbolic bytes; the real second-generation lexer and the reference are executed '
        'symbolically and the solver decides that kind, suffix type, value and error code agree for every completion.',
        ['first-generation lexing', 'unary minus folding in the parser', 'run-time values in emitted IR'],
        20 if tier == 'quick' else 100, extra=lint_extra)


def replay_file(path):
    return lexcheck.replay_file(PROP, path)
