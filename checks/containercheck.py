"""Containment closure, cycle detection and container depths (part of C11):
`Analyzer::found_container`, `found_container_1` and `determine_container_depths` of
src/alpha/scoper/variable_references.rs, symbolically executed from MIR as ONE step from an ARBITRARY analyzer state.

State: up to K containers (constants and structures), each with a symbolic resolution id, a symbolic set of contained ids
(`HashSet<u32>` as a bit set) and a symbolic kind.  The representation invariant INV assumed of the pre-state:
  ids are distinct and inside the bit-set model; every contained id is the id of a container; no container contains itself;
  containment is transitively closed (j in contained(i) implies contained(j) within contained(i)).
INV holds of the initial state (all sets empty) and the step queries show that every successful step preserves it, so it
holds after any error-free history, whatever its length; along such a history contained(i) is exactly the set of containers
reachable from i.  The step queries then say: a step reports a cycle iff the new edge closes one, and otherwise records
exactly the new reachability.  States after the first reported cycle (the module is rejected already) are outside the claim.
"""
import os
import random
import re
import time
import z3

from common import REPO, log, seed, Inconclusive
import replay
import vtlib
import vtcheck
from mirsym import (Executor, State, ValRef, PlaceRef, Opaque, EnumV, BoxV, BoxPtr, Agg, Model, Unsupported, PathAbort,
                    bv, zand, zor, znot, zite)

VT = 'alpha::value_type::ValueType<common::Identifier>'
ARRAYS = ['Array', 'ArrayWithNamedLength', 'Slice', 'SlicePointer', 'EndlessArray', 'Arraylike']
W = 8           # bits of the HashSet<u32> model: resolution ids 0..7


def native(S, lines):
    replay.write_generated({'value_types': vtlib.gen_value_types_rs(S.edef, list(vtcheck.PUB_UNARY), list(vtcheck.PUB_BINARY), S.kinds)})
    binary, _ = replay.build()
    rc, out, err = replay.run(binary, ['container-eval'], stdin='\n'.join(lines) + '\n', timeout=300)
    if rc != 0:
        raise Inconclusive('native container evaluation failed: ' + err[-300:])
    res = out.split('\n')[:len(lines)]
    if len(res) != len(lines):
        raise Inconclusive('native container evaluation: %d answers for %d requests' % (len(res), len(lines)))
    return res


# ------------------------------------------------------------------------------ concrete side (wire format, reference)
def wire_state(cs):
    return ' '.join('%d:%x:%d:%s' % (c['id'], c['mask'], 1 if c['s'] else 0, c['depth']) for c in cs)


def parse_state(txt):
    out = []
    for part in txt.split():
        i, m, s, d = part.split(':')
        out.append({'id': int(i), 'mask': int(m, 16), 's': s == '1', 'depth': d})
    return out


def names_of(t, by_value=True):
    """Containers that a type depends on, in the order the pass visits them: structures and words it holds by value (not
    behind a pointer or view), and the constants that name an array length anywhere in it (the length is part of the type
    and must be known to analyze it, pointer or not)."""
    v = t[0]
    if v in ARRAYS:
        out = names_of(t[1], by_value)
        if v == 'ArrayWithNamedLength':
            out = out + [t[2]]
        return out
    if v in ('Pointer', 'View'):
        return names_of(t[1], False)
    if not by_value:
        return []
    if v in ('Struct', 'Word'):
        return [t[1]]
    if v == 'UnresolvedStructOrWord':
        return [t[1]] if t[1] is not None else []
    return []


def inv_ok(cs):
    ids = [c['id'] for c in cs]
    if len(set(ids)) != len(ids) or any(i >= W for i in ids):
        return False
    allm = sum(1 << i for i in ids)
    for c in cs:
        if c['mask'] & ~allm or c['mask'] & (1 << c['id']):
            return False
        for d in cs:
            if c['mask'] & (1 << d['id']) and d['mask'] & ~c['mask']:
                return False
    return True


def spec_step(cs, cid, member, t):
    """The documented behaviour of one containment step from a state that satisfies INV.
    Returns (verdict, post masks or None)."""
    by = {c['id']: c for c in cs}
    cyc = False
    acc = 0
    for n in names_of(t):
        reach = by[n]['mask'] | (1 << n)
        acc |= reach
        if reach & (1 << cid):
            cyc = True
            break
    if cyc:
        if not member:
            return 'CyclicalConstant', None
        inside = by[cid]['mask'] | acc
        if any((not c['s']) and inside & (1 << c['id']) for c in cs):
            return 'CyclicalStructureWithConstant', None
        return 'CyclicalStructure', None
    post = []
    for c in cs:
        if c['id'] == cid or c['mask'] & (1 << cid):
            post.append(c['mask'] | acc)
        else:
            post.append(c['mask'])
    return 'ok', post


def spec_use(line):
    """Expected native answer for a `use` request (documented behaviour from an INV state)."""
    w = line.split(' ')
    name, ctx = int(w[1]), (None if w[2] == '-' else int(w[2]))
    layers = [[] if l == '-' else [tuple(int(x) for x in e.split(':')) for e in l.split(',')] for l in w[3].split('/')]
    cs = parse_state(' '.join(w[4:]))
    hit = [i for n, i in layers[0] if n == name]
    if not hit:
        later = [i for l in layers[1:] for n, i in l if n == name]
        return 'err%d' % _CODES_BY_NAME('NotACompileTimeConstant' if later else 'UndefinedVariable'), wire_state(cs)
    rid = hit[0]
    if ctx is None:
        return 'ok%d' % rid, wire_state(cs)
    v, post = spec_step(cs, ctx, False, ('Struct', rid))
    if v != 'ok':
        return 'err%d' % _CODES_BY_NAME(v), None         # the containment sets after a rejected step are not specified
    out = [dict(c, mask=m_) for c, m_ in zip(cs, post)]
    return 'ok%d' % rid, wire_state(out)


def _CODES_BY_NAME(variant):
    return error_code(None, variant)


def spec_depths(cs):
    """Depths of an INV state: 0 for a container that contains nothing, else one more than the deepest container it contains."""
    by = {c['id']: c for c in cs}
    memo = {}

    def depth(i):
        if i not in memo:
            inner = [j for j in by if by[i]['mask'] & (1 << j)]
            memo[i] = 0 if not inner else 1 + max(depth(j) for j in inner)
        return memo[i]
    return [depth(c['id']) for c in cs]


# ------------------------------------------------------------------------------ symbolic side
class Sym:
    """Symbolic analyzer state and its accessors."""

    def __init__(self, S, ex, K):
        self.S, self.ex, self.K = S, ex, K
        defs = S.defs
        self.cdef = defs.find_struct('alpha::scoper::variable_references::Container')
        self.adef = defs.find_struct('alpha::scoper::variable_references::Analyzer')
        self.idef = defs.find_struct('alpha::common::Identifier')
        if self.cdef is None or self.adef is None or self.idef is None:
            raise Inconclusive('struct Container/Analyzer/Identifier not found in the sources')
        self.cf = [f for f, _ in self.cdef.fields]
        self.af = [f for f, _ in self.adef.fields]
        self.idf = [f for f, _ in self.idef.fields]
        for need, have in ((['identifier', 'contained_ids', 'depth', 'is_structure'], self.cf), (['containers'], self.af),
                           (['resolution_id'], self.idf)):
            for n in need:
                if n not in have:
                    raise Inconclusive('field %s not found' % n)

    def fresh_containers(self, tag, depth_none):
        ex = self.ex
        items = []
        saved = ex.defs.prefer_module
        for i in range(self.K):
            c = ex.fresh_value('alpha::scoper::variable_references::Container', '%s%d' % (tag, i), depth=3,
                               expand=lambda b: b in ('Container', 'Identifier', 'Option', 'Result', 'Poison'))
            if not isinstance(c, Agg):
                raise Inconclusive('cannot build a symbolic Container')
            if depth_none:
                fs = list(c.fields)
                fs[self.cf.index('depth')] = EnumV(ex.defs.find_enum('Option'), bv(0, 64), {'None': ()})
                c = Agg(fs, c.tag)
            items.append(c)
        ex.defs.prefer_module = saved
        ln = z3.BitVec(tag + '.len', 64)
        ex.assume(z3.ULE(ln, bv(self.K, 64)))
        return Model('vec', items=Agg(items + [None], 'vecitems'), len=ln, cap=bv(self.K, 64))

    def analyzer(self, containers, **over):
        fs = []
        for f, t in self.adef.fields:
            if f in over:
                fs.append(over[f])
            elif f == 'containers':
                fs.append(containers)
            elif f == 'resolution_id':
                fs.append(bv(1, 32))
            elif f == 'in_constexpr_of_constant':
                fs.append(EnumV(self.ex.defs.find_enum('Option'), bv(0, 64), {'None': ()}))
            else:
                fs.append(Opaque('analyzer.' + f))
        return Agg(fs, 'Analyzer')

    def cid(self, c):
        return c.fields[self.cf.index('identifier')].fields[self.idf.index('resolution_id')]

    def mask(self, c):
        return c.fields[self.cf.index('contained_ids')]

    def is_struct(self, c):
        return c.fields[self.cf.index('is_structure')]

    def depth(self, c):
        return c.fields[self.cf.index('depth')]

    def bit(self, idv):
        return bv(1, W) << z3.Extract(W - 1, 0, idv)

    def inv(self, vec, only=None):
        """The representation invariant; with `only`, just the clauses that constrain container slot `only`."""
        items = [x for x in vec.f['items'].fields if x is not None]
        n = vec.f['len']
        act = [z3.ULT(bv(i, 64), n) for i in range(len(items))]
        cons = []
        allm = bv(0, W)
        for i, c in enumerate(items):
            if only is None or only == i:
                cons.append(z3.Implies(act[i], z3.ULT(self.cid(c), bv(W, 32))))
            allm = allm | zite(act[i], self.bit(self.cid(c)), bv(0, W))
            for j in range(i):
                if only is None or only == i:
                    cons.append(z3.Implies(zand(act[i], act[j]), self.cid(c) != self.cid(items[j])))
        for i, c in enumerate(items):
            if only is not None and only != i:
                continue
            cons.append(z3.Implies(act[i], (self.mask(c) & ~allm) == bv(0, W)))
            cons.append(z3.Implies(act[i], (self.mask(c) & self.bit(self.cid(c))) == bv(0, W)))
            for j, d in enumerate(items):
                if i != j:
                    cons.append(z3.Implies(zand(act[i], act[j], (self.mask(c) & self.bit(self.cid(d))) != bv(0, W)),
                                           (self.mask(d) & ~self.mask(c)) == bv(0, W)))
        return zand(*cons), act, items

    def model_state(self, m, vec):
        n = m.eval(vec.f['len'], model_completion=True).as_long()
        out = []
        for c in vec.f['items'].fields[:n]:
            d = self.depth(c)
            dd = m.eval(d.discr, model_completion=True).as_long()
            if dd == 0:
                ds = 'n'
            else:
                r = d.variants['Some'][0]
                if m.eval(r.discr, model_completion=True).as_long() == 0:
                    ds = str(m.eval(r.variants['Ok'][0], model_completion=True).as_long())
                else:
                    ds = 'p'
            out.append({'id': m.eval(self.cid(c), model_completion=True).as_long(),
                        'mask': m.eval(self.mask(c), model_completion=True).as_long(),
                        's': z3.is_true(m.eval(self.is_struct(c), model_completion=True)), 'depth': ds})
        return out


def sym_names(sy, t, by_value=True):
    """[(condition, id term)] in visiting order, for the symbolic type t (payload slots are shared between variants):
    structures/words held by value, and array-length constants anywhere (also behind pointers and views)."""
    if t is None or not isinstance(t, EnumV):
        return []
    ed = t.edef

    def is_(*names):
        return zor(*[t.discr == bv(ed.variant_by_name(n)[1], 64) for n in names if n in t.variants])
    out = []
    child = None
    for v in ARRAYS + ['Pointer', 'View']:
        if v in t.variants:
            b = t.variants[v][0]
            child = b.content if isinstance(b, (BoxV, BoxPtr)) else None
            break
    present = [v for v in ARRAYS if v in t.variants]
    if child is not None and present:
        arr = is_(*present)
        out += [(zand(arr, c), i) for c, i in sym_names(sy, child, by_value)]
    ridx = sy.idf.index('resolution_id')
    if 'ArrayWithNamedLength' in t.variants:
        out.append((is_('ArrayWithNamedLength'), t.variants['ArrayWithNamedLength'][1].fields[ridx]))
    indirect = [v for v in ('Pointer', 'View') if v in t.variants]
    if child is not None and indirect:
        out += [(zand(is_(*indirect), c), i) for c, i in sym_names(sy, child, False)]
    if not by_value:
        return out
    for v in ('Struct', 'Word'):
        if v in t.variants:
            out.append((is_(v), t.variants[v][0].fields[ridx]))
    if 'UnresolvedStructOrWord' in t.variants:
        o = t.variants['UnresolvedStructOrWord'][0]
        if 'Some' in o.variants:
            out.append((zand(is_('UnresolvedStructOrWord'), o.discr == bv(1, 64)), o.variants['Some'][0].fields[ridx]))
    return out


def no_unresolved_none(t):
    if t is None or not isinstance(t, EnumV):
        return z3.BoolVal(True)
    cons = []
    if 'UnresolvedStructOrWord' in t.variants:
        o = t.variants['UnresolvedStructOrWord'][0]
        cons.append(znot(zand(t.discr == bv(t.edef.variant_by_name('UnresolvedStructOrWord')[1], 64), o.discr == bv(0, 64))))
    seen = set()
    for v, fs in t.variants.items():
        for f in fs:
            if isinstance(f, (BoxV, BoxPtr)) and f.content is not None and id(f.content) not in seen:
                seen.add(id(f.content))
                cons.append(no_unresolved_none(f.content))
    return zand(*cons)


def type_from_model(sy, m, t):
    d = m.eval(t.discr, model_completion=True).as_long()
    _, v, fields = t.edef.variant_by_discr(d)
    ridx = sy.idf.index('resolution_id')
    fs = []
    for (fname, ft), sf in zip(fields, t.variants[v]):
        if isinstance(sf, (BoxV, BoxPtr)):
            fs.append(type_from_model(sy, m, sf.content))
        elif isinstance(sf, Agg):
            fs.append(m.eval(sf.fields[ridx], model_completion=True).as_long())
        elif isinstance(sf, EnumV):
            some = m.eval(sf.discr, model_completion=True).as_long() == 1
            fs.append(m.eval(sf.variants['Some'][0].fields[ridx], model_completion=True).as_long() if some else None)
        else:
            fs.append(m.eval(sf, model_completion=True).as_long())
    return (v,) + tuple(fs)


def bind_type(sy, t, conc, cons):
    v = conc[0]
    if v not in t.variants:
        raise ValueError('beyond the materialised depth')
    _, d, fields = t.edef.variant_by_name(v)
    cons.append(t.discr == bv(d, 64))
    ridx = sy.idf.index('resolution_id')
    for (fname, ft), sf, cv in zip(fields, t.variants[v], conc[1:]):
        if isinstance(sf, (BoxV, BoxPtr)):
            if sf.content is None:
                raise ValueError('beyond the materialised depth')
            bind_type(sy, sf.content, cv, cons)
        elif isinstance(sf, Agg):
            cons.append(sf.fields[ridx] == bv(cv, 32))
        elif isinstance(sf, EnumV):
            if cv is None:
                cons.append(sf.discr == bv(0, 64))
            else:
                cons.append(sf.discr == bv(1, 64))
                cons.append(sf.variants['Some'][0].fields[ridx] == bv(cv, 32))
        else:
            cons.append(sf == bv(cv, sf.size()))


def bind_state(sy, vec, cs, cons):
    cons.append(vec.f['len'] == bv(len(cs), 64))
    for c, k in zip(vec.f['items'].fields, cs):
        d = sy.depth(c)
        if z3.is_expr(d.discr) and not z3.is_bv_value(d.discr):
            # depth: n (None), p (poisoned) or a number
            if k['depth'] == 'n':
                cons.append(d.discr == bv(0, 64))
            else:
                r = d.variants['Some'][0]
                cons.append(d.discr == bv(1, 64))
                if k['depth'] == 'p':
                    cons.append(r.discr == bv(1, 64))
                else:
                    cons += [r.discr == bv(0, 64), r.variants['Ok'][0] == bv(int(k['depth']), 32)]
        cons.append(sy.cid(c) == bv(k['id'], 32))
        cons.append(sy.mask(c) == bv(k['mask'], W))
        cons.append(sy.is_struct(c) == z3.BoolVal(k['s']))


def random_state(rng, K, acyclic=True):
    n = rng.randint(1, K)
    ids = rng.sample(range(W), n)
    order = list(range(n))
    rng.shuffle(order)
    edges = {i: set() for i in range(n)}
    for a in range(n):
        for b in range(a + 1, n):
            if rng.random() < 0.4:
                edges[order[a]].add(order[b])
    # transitive closure
    changed = True
    while changed:
        changed = False
        for i in range(n):
            for j in list(edges[i]):
                if not edges[j] <= edges[i]:
                    edges[i] |= edges[j]
                    changed = True
    return [{'id': ids[i], 'mask': sum(1 << ids[j] for j in edges[i]), 's': rng.random() < 0.6, 'depth': 'n'} for i in range(n)]


def random_type(rng, ids, depth):
    r = rng.random()
    if depth <= 1 or r < 0.3:
        k = rng.random()
        if k < 0.4:
            return ('Struct', rng.choice(ids))
        if k < 0.55:
            return ('Word', rng.choice(ids), rng.choice([1, 2, 4, 8]))
        if k < 0.7:
            return ('UnresolvedStructOrWord', rng.choice(ids))
        return (rng.choice(['Int32', 'Bool', 'Uint8', 'Usize']),)
    v = rng.choice(ARRAYS + ['Pointer', 'View', 'ArrayWithNamedLength', 'ArrayWithNamedLength'])
    inner = random_type(rng, ids, depth - 1)
    if v == 'Array':
        return (v, inner, rng.randint(0, 9))
    if v == 'ArrayWithNamedLength':
        return (v, inner, rng.choice(ids))
    return (v, inner)


def run(S, tier, bounds=None, sfx=''):
    K, depth = bounds or (4, 2)
    if os.environ.get('CONTAINER_BOUNDS'):
        K, depth = (int(x) for x in os.environ['CONTAINER_BOUNDS'].split(','))
    t_start = time.time()
    ex = Executor(S.dump, S.defs, loop_bound=K + 3)
    ex.abstract_types = {'HashSet': W, 'String': 8, 'Location': 8}
    ex.vec_input_slots = 0
    sy = Sym(S, ex, K)
    fn_names = {}
    for short in ('found_container', 'determine_container_depths'):
        hits = [n for n in S.dump.function_names() if re.search(r'variable_references\.rs:\d+:\d+: \d+:\d+>::%s$' % short, n)]
        if len(hits) != 1:
            raise Inconclusive('Analyzer::%s not found in the MIR dump' % short)
        fn_names[short] = hits[0]

    # ---------------------------------------------------------------- one containment step
    vec = sy.fresh_containers('ct', depth_none=False)
    t = ex.fresh_value(VT, 'ctype', depth=depth)
    container = ex.fresh_value('alpha::common::Identifier', 'cname', depth=1)
    member_id = ex.fresh_value('alpha::common::Identifier', 'cmember', depth=1)
    with_member = z3.Bool('with_member')
    member = EnumV(S.defs.find_enum('Option'), zite(with_member, bv(1, 64), bv(0, 64)), {'None': (), 'Some': (ValRef(member_id),)})
    rdef = S.defs.find_enum('Result')
    arg_t = EnumV(rdef, bv(0, 64), {'Ok': (t,)})
    st = State()
    st.mem[(0, 'analyzer')] = sy.analyzer(vec)
    try:
        g, res = ex.call_function(S.dump.get(fn_names['found_container']),
                                  [PlaceRef((0, 'analyzer')), ValRef(container), member, arg_t], z3.BoolVal(True), st)
    except (Unsupported, PathAbort) as e:
        raise Inconclusive('cannot encode Analyzer::found_container: %s' % e)
    post_vec = st.mem[(0, 'analyzer')].fields[sy.af.index('containers')]
    cidv = container.fields[sy.idf.index('resolution_id')]
    inv, act, items = sy.inv(vec)
    names = sym_names(sy, t)
    # preconditions: INV, the container and every named containee are predeclared containers
    def declared(idv):
        return zor(*[zand(act[i], sy.cid(c) == idv) for i, c in enumerate(items)])
    pre = zand(inv, declared(cidv), no_unresolved_none(t), *[z3.Implies(c, declared(i)) for c, i in names])

    def mask_of(idv):
        acc = bv(0, W)
        for i, c in enumerate(items):
            acc = zite(zand(act[i], sy.cid(c) == idv), sy.mask(c), acc)
        return acc
    cbit = sy.bit(cidv)
    reach = [(c, mask_of(i) | sy.bit(i)) for c, i in names]
    closes = [zand(c, (r & cbit) != bv(0, W)) for c, r in reach]
    cyc = zor(*closes)
    acc_all = bv(0, W)
    for c, r in reach:
        acc_all = acc_all | zite(c, r, bv(0, W))
    # reach accumulated up to and including the first name that closes a cycle
    acc_first, stopped = bv(0, W), z3.BoolVal(False)
    for (c, r), cl in zip(reach, closes):
        acc_first = acc_first | zite(zand(c, znot(stopped)), r, bv(0, W))
        stopped = zor(stopped, cl)
    is_ok = res.discr == bv(0, 64)
    poison = res.variants['Err'][0] if 'Err' in res.variants else None
    pdef = S.defs.find_enum('alpha::error::Poison')
    edef = S.defs.find_enum('alpha::error::Error')
    is_error = zand(znot(is_ok), poison.discr == bv(pdef.variant_by_name('Error')[1], 64)) if poison is not None else z3.BoolVal(False)
    err = poison.variants['Error'][0] if poison is not None and 'Error' in poison.variants else None

    def err_is(name):
        if err is None:
            return z3.BoolVal(False)
        return zand(is_error, err.discr == bv(edef.variant_by_name(name)[1], 64))
    own_mask = mask_of(cidv)
    const_inside = zor(*[zand(act[i], znot(sy.is_struct(c)), ((own_mask | acc_first) & sy.bit(sy.cid(c))) != bv(0, W))
                         for i, c in enumerate(items)])
    panics = [og for k_, og, _ in ex.obligations if k_ not in ('bound', 'unwind')]
    in_model = znot(zor(*[og for k_, og, _ in ex.obligations if k_ in ('bound', 'unwind')]))
    solver = z3.SolverFor('QF_BV')
    solver.add(*ex.assumptions)
    pending = []
    unconfirmed = []

    def verdict_of(line):
        return line.split(' | ')[0]

    todo = []

    def ask(qname, formula, text, kind, lemmas=()):
        """Queue a query: `formula` (the negated claim) must be unsatisfiable under the solver's assumptions.  `lemmas` are
        names of earlier queries whose proven claims may be used as assumptions; if one of them was not proven the query is
        dropped (its premise is already reported)."""
        todo.append((qname + sfx, formula, text, kind, tuple(l + sfx for l in lemmas), solver))

    def flush():
        batch = list(todo)
        del todo[:]
        results = solve_batch(batch, 3600 if tier != 'quick' else 900)
        proven = {q['name'] for q in S.queries if q['result'] == 'unsat'}
        for (qname, formula, text, kind, lemmas, slv), (r, dt) in zip(batch, results):
            if any(l not in proven for l in lemmas):
                continue
            S.solver_s += dt
            if r == 'error':
                # the CLI could not read the query (an operator without a parsable name): decide it in-process instead
                t_in = time.time()
                slv.push()
                slv.add(formula)
                r = str(slv.check())
                slv.pop()
                dt += time.time() - t_in
            if r not in ('sat', 'unsat'):
                raise Inconclusive('z3 answered %s on %s after %.0fs' % (r, qname, dt))
            if kind == 'witness':
                # reachability witness: the premises of the section must be satisfiable together with an interesting outcome
                S.queries.append({'name': qname, 'result': r, 'seconds': round(dt, 3), 'statement': text, 'expected': 'sat'})
                if r != 'sat':
                    unconfirmed.append('vacuity witness %s is unsatisfiable: the premises exclude what the clauses are about' % qname)
                continue
            q = {'name': qname, 'result': r, 'seconds': round(dt, 3), 'statement': text}
            if lemmas:
                q['uses_proven'] = list(lemmas)
            S.queries.append(q)
            if r == 'unsat':
                proven.add(qname)
                continue
            # a model for the report: solved again in-process
            slv.push()
            slv.add(formula)
            if slv.check() != z3.sat:
                slv.pop()
                raise Inconclusive('%s: the batch solver said sat, the in-process solver did not' % qname)
            m = slv.model()
            slv.pop()
            handle_sat(q, qname, text, kind, m)

    def handle_sat(q, qname, text, kind, m):
        if kind == 'bounds':
            unconfirmed.append('%s: the bounded models are exceeded' % qname)
            return
        if kind == 'step':
            cs = sy.model_state(m, vec)
            ct = type_from_model(sy, m, t)
            c_id = m.eval(cidv, model_completion=True).as_long()
            mem = z3.is_true(m.eval(with_member, model_completion=True))
            line = 'step %d %d %s %s' % (c_id, 1 if mem else 0, vtlib.wire(ct), wire_state(cs))
            got = native(S, [line])[0]
            q['counterexample'] = {'request': line, 'native': got}
            want_v, want_post = spec_step(cs, c_id, mem, ct)
            ok = inv_ok(cs)
            if got == 'PANIC':
                bad = True
            else:
                v = verdict_of(got)
                post = parse_state(got.split(' | ')[1]) if ' | ' in got else []
                if want_v == 'ok':
                    bad = not (v == 'ok1' and [c['mask'] for c in post] == want_post and inv_ok(post))
                else:
                    bad = v != 'err%d' % error_code(S, want_v)
            if not ok or not bad:
                unconfirmed.append('counterexample of %s does not reproduce natively: %s -> %s' % (qname, line, got))
                return
            pending.append((qname, text, line, got, ct))
        elif kind == 'use':
            line = use_line(m)
            got = native(S, [line])[0]
            q['counterexample'] = {'request': line, 'native': got}
            want_v, want_post = spec_use(line)
            good = got != 'PANIC' and got.split(' | ')[0] == want_v and (want_post is None or got.split(' | ')[1] == want_post)
            if good or not inv_ok(parse_state(' '.join(line.split(' ')[4:]))):
                unconfirmed.append('counterexample of %s does not reproduce natively: %s -> %s' % (qname, line, got))
                return
            pending.append((qname, text, line, got, ('Void',)))
        else:
            cs = sy2.model_state(m, dvec)
            line = 'depths ' + wire_state(cs)
            got = native(S, [line])[0]
            q['counterexample'] = {'request': line, 'native': got}
            bad = got == 'PANIC' or [c['depth'] for c in parse_state(got)] != [str(d) for d in spec_depths(cs)]
            if not inv_ok(cs) or not bad:
                unconfirmed.append('counterexample of %s does not reproduce natively: %s -> %s' % (qname, line, got))
                return
            pending.append((qname, text, line, got, ('Void',)))

    def use_line(m):
        ev = lambda t_: m.eval(t_, model_completion=True).as_long()
        l0 = ','.join('%d:%d' % (ev(lay0[i].fields[nidx]), ev(lay0[i].fields[ridx])) for i in range(ev(n0))) or '-'
        layers = [l0]
        if ev(nl) == 2:
            layers.append(','.join('%d:%d' % (ev(lay1[i].fields[nidx]), ev(lay1[i].fields[ridx])) for i in range(ev(n1))) or '-')
        cx = str(ev(cxid)) if z3.is_true(m.eval(has_ctx, model_completion=True)) else '-'
        return 'use %d %s %s %s' % (ev(uname), cx, '/'.join(layers), wire_state(sy3.model_state(m, uvec)))

    base = zand(pre, in_model)
    ask('containers:step-total', zand(base, zor(znot(g), *panics)),
        'a containment step from a consistent state returns without panic', 'step')
    ask('containers:cycle-iff', zand(base, g, is_ok == cyc),
        'a containment step is rejected iff the type depends (structures and words by value, array-length constants anywhere) on the container itself or on something that already contains it', 'step')
    kind_text = ('a cycle is reported as E413 for a constant and as E415/E416 for a structure member (E416 iff a constant is among '
                 'everything the structure then contains, on the cycle or not)')
    ask('containers:error-kind[constant]', zand(base, g, cyc, znot(with_member), znot(err_is('CyclicalConstant'))), kind_text, 'step')
    ask('containers:error-kind[member,E416]', zand(base, g, cyc, with_member, const_inside, znot(err_is('CyclicalStructureWithConstant'))), kind_text, 'step')
    ask('containers:error-kind[member,E415]', zand(base, g, cyc, with_member, znot(const_inside), znot(err_is('CyclicalStructure'))), kind_text, 'step')
    # post-state of an accepted step
    pitems = [x for x in post_vec.f['items'].fields if x is not None]
    same_shape = [post_vec.f['len'] == vec.f['len']]
    exact = []
    for i, (c0, c1) in enumerate(zip(items, pitems)):
        grows = zor(sy.cid(c0) == cidv, (sy.mask(c0) & cbit) != bv(0, W))
        exact.append(z3.Implies(act[i], zand(sy.cid(c1) == sy.cid(c0), sy.is_struct(c1) == sy.is_struct(c0),
                                             sy.mask(c1) == zite(grows, sy.mask(c0) | acc_all, sy.mask(c0)))))
    ask('containers:closure-shape', zand(base, g, is_ok, znot(zand(*same_shape))), 'an accepted step neither adds nor removes containers', 'step')
    for i, e in enumerate(exact):
        ask('containers:closure-exact[%d]' % i, zand(base, g, is_ok, znot(e)),
            'an accepted step adds exactly the named containers and everything they contain to the container and to everything that '
            'contains it (container slot %d)' % i, 'step')
    # the post-state as the proven closure clauses describe it (spec-level terms instead of the encoding's)
    spec_items = []
    for i, c0 in enumerate(items):
        grows = zor(sy.cid(c0) == cidv, (sy.mask(c0) & cbit) != bv(0, W))
        fs = list(c0.fields)
        fs[sy.cf.index('contained_ids')] = zite(grows, sy.mask(c0) | acc_all, sy.mask(c0))
        spec_items.append(Agg(fs, c0.tag))
    spec_vec = Model('vec', items=Agg(spec_items + [None], 'vecitems'), len=vec.f['len'], cap=vec.f['cap'])
    for i in range(len(spec_items)):
        inv_i = sy.inv(spec_vec, only=i)[0]
        ask('containers:invariant-preserved[%d]' % i, zand(base, znot(cyc), znot(inv_i)),
            'the post-state of an accepted step (as the closure-exact clauses give it) keeps containment transitively closed, '
            'irreflexive and within the declared containers (clauses about container slot %d)' % i, 'step',
            lemmas=['containers:cycle-iff', 'containers:closure-shape'] + ['containers:closure-exact[%d]' % j for j in range(len(exact))])
    rt = res.variants['Ok'][0] if 'Ok' in res.variants else None
    if rt is not None:
        from mirmodels import structural_eq
        ask('containers:type-unchanged', zand(base, g, is_ok, znot(structural_eq(ex, st, rt, t))),
            'an accepted step returns the type it was given', 'step')
    full = vec.f['len'] == bv(K, 64)
    ask('containers:witness-accepted', zand(base, g, znot(cyc), full, zor(*[c for c, _ in names]), *[sy.mask(c) != bv(0, W) for c in items[:1]]),
        'witness: an accepted step that names a container, from a full state with a non-empty containment set', 'witness')
    ask('containers:witness-cycle', zand(base, g, cyc, full), 'witness: a step that closes a cycle', 'witness')
    awnl = [(c, i) for c, i in names if i is t.variants.get('ArrayWithNamedLength', (None, None))[1].fields[sy.idf.index('resolution_id')]] \
        if 'ArrayWithNamedLength' in t.variants else []
    inner = [(c, i) for c, i in names if not any(i is j for _, j in awnl)]
    if awnl and inner:
        ask('containers:witness-two-names', zand(base, g, znot(cyc), awnl[0][0], zor(*[zand(c, i != awnl[0][1]) for c, i in inner])),
            'witness: an accepted step whose type names two different containers (element type and named length)', 'witness')
    ask('containers:model-bounds', zand(pre, znot(in_model)), 'the bit-set and Vec models suffice for every state within the bound', 'bounds')
    flush()
    S.functions += ['Analyzer::found_container', 'Analyzer::found_container_1']

    # ---------------------------------------------------------------- container depths
    ex2 = Executor(S.dump, S.defs, loop_bound=K + 3)
    ex2.abstract_types = dict(ex.abstract_types)
    ex2.vec_input_slots = 0
    sy2 = Sym(S, ex2, K)
    dvec = sy2.fresh_containers('cd', depth_none=True)
    st2 = State()
    st2.mem[(0, 'analyzer')] = sy2.analyzer(dvec)
    try:
        g2, _r = ex2.call_function(S.dump.get(fn_names['determine_container_depths']), [PlaceRef((0, 'analyzer'))], z3.BoolVal(True), st2)
    except (Unsupported, PathAbort) as e:
        raise Inconclusive('cannot encode Analyzer::determine_container_depths: %s' % e)
    dpost = st2.mem[(0, 'analyzer')].fields[sy2.af.index('containers')]
    inv2, act2, items2 = sy2.inv(dvec)
    ditems = [x for x in dpost.f['items'].fields if x is not None]
    panics2 = [og for k_, og, _ in ex2.obligations if k_ not in ('bound', 'unwind')]
    in_model2 = znot(zor(*[og for k_, og, _ in ex2.obligations if k_ in ('bound', 'unwind')]))
    solver = z3.SolverFor('QF_BV')
    solver.add(*ex2.assumptions)

    def depth_ok(c):
        d = sy2.depth(c)
        if 'Some' not in d.variants:
            return z3.BoolVal(False), bv(0, 32)
        r = d.variants['Some'][0]
        if 'Ok' not in r.variants:
            return z3.BoolVal(False), bv(0, 32)
        return zand(d.discr == bv(1, 64), r.discr == bv(0, 64)), r.variants['Ok'][0]
    base2 = zand(inv2, in_model2)
    ask('depths:total', zand(base2, zor(znot(g2), *panics2)), 'the depth computation returns without panic', 'depths')
    all_ok, ordered, tight = [], [], []
    for i, c in enumerate(ditems):
        ok_i, d_i = depth_ok(c)
        all_ok.append(z3.Implies(act2[i], zand(ok_i, z3.ULT(z3.ZeroExt(32, d_i), dvec.f['len']))))
        inner_any = []
        for j, e in enumerate(ditems):
            if i == j:
                continue
            ok_j, d_j = depth_ok(e)
            inside = zand(act2[i], act2[j], (sy2.mask(items2[i]) & sy2.bit(sy2.cid(items2[j]))) != bv(0, W))
            ordered.append(z3.Implies(inside, z3.ULT(d_j, d_i)))
            inner_any.append(zand(inside, d_j + bv(1, 32) == d_i))
        empty = sy2.mask(items2[i]) == bv(0, W)
        tight.append(z3.Implies(act2[i], zite(empty, d_i == bv(0, 32), zor(*inner_any))))
    ask('depths:all-resolved', zand(base2, g2, znot(zand(*all_ok))),
        'every container of an acyclic state gets a depth below the number of containers', 'depths')
    ask('depths:ordered', zand(base2, g2, zand(*all_ok), znot(zand(*ordered))),
        'a container is strictly deeper than everything it contains (so sorting by depth declares containees first)', 'depths')
    ask('depths:tight', zand(base2, g2, zand(*all_ok), znot(zand(*tight))),
        'depth 0 iff nothing is contained, otherwise one more than the deepest containee', 'depths')
    all_ids = bv(0, W)
    for i, c in enumerate(items2):
        all_ids = all_ids | zite(act2[i], sy2.bit(sy2.cid(c)), bv(0, W))
    # a full state in which one container contains all others and another contains all but that one (premises only)
    deepest = zand(dvec.f['len'] == bv(K, 64),
                   zor(*[(sy2.mask(c) | sy2.bit(sy2.cid(c))) == all_ids for c in items2]),
                   zor(*[zand(sy2.mask(c) != bv(0, W), (sy2.mask(c) | sy2.bit(sy2.cid(c))) != all_ids) for c in items2]))
    ask('depths:witness-chain', zand(base2, g2, deepest), 'witness: a full state of %d containers with nested containment' % K, 'witness')
    ask('depths:model-bounds', zand(inv2, znot(in_model2)), 'the bit-set, Vec and loop models suffice for every state within the bound', 'bounds')
    flush()
    S.functions += ['Analyzer::determine_container_depths']

    # ---------------------------------------------------------------- a constant used inside a constant expression
    KU = 3
    ex3 = Executor(S.dump, S.defs, loop_bound=KU + 3)
    ex3.abstract_types = dict(ex.abstract_types)
    ex3.vec_input_slots = 0
    sy3 = Sym(S, ex3, KU)
    uvec = sy3.fresh_containers('cu', depth_none=False)
    hits = [n for n in S.dump.function_names() if re.search(r'variable_references\.rs:\d+:\d+: \d+:\d+>::use_constant$', n)]
    if len(hits) != 1:
        raise Inconclusive('Analyzer::use_constant not found in the MIR dump')
    nidx, ridx = sy3.idf.index('name'), sy3.idf.index('resolution_id')
    lay0 = [ex3.fresh_value('alpha::common::Identifier', 'l0_%d' % i, depth=1) for i in range(2)]
    lay1 = [ex3.fresh_value('alpha::common::Identifier', 'l1_%d' % i, depth=1) for i in range(1)]
    n0, n1, nl = z3.BitVec('ul0.len', 64), z3.BitVec('ul1.len', 64), z3.BitVec('ulayers', 64)
    ex3.assume(zand(z3.ULE(n0, bv(2, 64)), z3.ULE(n1, bv(1, 64)), z3.UGE(nl, bv(1, 64)), z3.ULE(nl, bv(2, 64))))
    v0 = Model('vec', items=Agg(lay0 + [None], 'vecitems'), len=n0, cap=bv(2, 64))
    v1 = Model('vec', items=Agg(lay1 + [None], 'vecitems'), len=n1, cap=bv(1, 64))
    vstack = Model('vec', items=Agg([v0, v1, None], 'vecitems'), len=nl, cap=bv(2, 64))
    ctx_id = ex3.fresh_value('alpha::common::Identifier', 'uctx', depth=1)
    has_ctx = z3.Bool('has_ctx')
    ctx = EnumV(S.defs.find_enum('Option'), zite(has_ctx, bv(1, 64), bv(0, 64)), {'None': (), 'Some': (ctx_id,)})
    used = ex3.fresh_value('alpha::common::Identifier', 'used', depth=1)
    st3 = State()
    st3.mem[(0, 'analyzer')] = sy3.analyzer(uvec, variable_stack=vstack, in_constexpr_of_constant=ctx)
    try:
        g3, res3 = ex3.call_function(S.dump.get(hits[0]), [PlaceRef((0, 'analyzer')), used], z3.BoolVal(True), st3)
    except (Unsupported, PathAbort) as e:
        raise Inconclusive('cannot encode Analyzer::use_constant: %s' % e)
    upost = st3.mem[(0, 'analyzer')].fields[sy3.af.index('containers')]
    inv3, act3, items3 = sy3.inv(uvec)
    uname = used.fields[nidx]
    a0 = [z3.ULT(bv(i, 64), n0) for i in range(2)]
    a1 = [zand(nl == bv(2, 64), z3.ULT(bv(i, 64), n1)) for i in range(1)]
    hit0 = [zand(a0[i], lay0[i].fields[nidx] == uname) for i in range(2)]
    found0 = zor(*hit0)
    rid = lay0[1].fields[ridx]
    rid = zite(hit0[0], lay0[0].fields[ridx], rid)
    found_later = zor(*[zand(a1[i], lay1[i].fields[nidx] == uname) for i in range(1)])

    def declared3(idv):
        return zor(*[zand(act3[i], sy3.cid(c) == idv) for i, c in enumerate(items3)])

    def mask3(idv):
        acc = bv(0, W)
        for i, c in enumerate(items3):
            acc = zite(zand(act3[i], sy3.cid(c) == idv), sy3.mask(c), acc)
        return acc
    cxid = ctx_id.fields[ridx]
    pre3 = zand(inv3, z3.Implies(has_ctx, declared3(cxid)), *[z3.Implies(a0[i], declared3(lay0[i].fields[ridx])) for i in range(2)])
    panics3 = [og for k_, og, _ in ex3.obligations if k_ not in ('bound', 'unwind')]
    in_model3 = znot(zor(*[og for k_, og, _ in ex3.obligations if k_ in ('bound', 'unwind')]))
    base3 = zand(pre3, in_model3)
    solver = z3.SolverFor('QF_BV')
    solver.add(*ex3.assumptions)
    ok3 = res3.discr == bv(0, 64)
    poison3 = res3.variants['Err'][0] if 'Err' in res3.variants else None
    is_error3 = zand(znot(ok3), poison3.discr == bv(pdef.variant_by_name('Error')[1], 64)) if poison3 is not None else z3.BoolVal(False)
    err3 = poison3.variants['Error'][0] if poison3 is not None and 'Error' in poison3.variants else None

    def err3_is(name):
        if err3 is None:
            return z3.BoolVal(False)
        return zand(is_error3, err3.discr == bv(edef.variant_by_name(name)[1], 64))
    reach3 = mask3(rid) | sy3.bit(rid)
    cyc3 = zand(found0, has_ctx, (reach3 & sy3.bit(cxid)) != bv(0, W))
    out_id = res3.variants['Ok'][0].fields[ridx] if 'Ok' in res3.variants else bv(0, 32)
    expected_verdict = zite(found0, zite(cyc3, err3_is('CyclicalConstant'), zand(ok3, out_id == rid)),
                            zite(found_later, err3_is('NotACompileTimeConstant'), err3_is('UndefinedVariable')))
    use_text = ('a name used in a constant expression resolves to the constant of that name (E402 for an unknown name, E433 for a variable that is not a compile-time constant); '
                'inside the expression of constant c it is rejected as E413 iff it is c or contains c')
    ask('use:total', zand(base3, zor(znot(g3), *panics3)), 'use_constant returns without panic from every consistent state', 'use')
    ask('use:verdict', zand(base3, g3, znot(expected_verdict)), use_text, 'use')
    pitems3 = [x for x in upost.f['items'].fields if x is not None]
    records = zand(found0, has_ctx, znot(cyc3))
    for i, (c0, c1) in enumerate(zip(items3, pitems3)):
        grows = zand(records, zor(sy3.cid(c0) == cxid, (sy3.mask(c0) & sy3.bit(cxid)) != bv(0, W)))
        ask('use:edge-recorded[%d]' % i,
            zand(base3, g3, act3[i], znot(cyc3), znot(zand(upost.f['len'] == uvec.f['len'], sy3.cid(c1) == sy3.cid(c0),
                                               sy3.mask(c1) == zite(grows, sy3.mask(c0) | reach3, sy3.mask(c0))))),
            'using constant n inside the expression of constant c makes n and everything n contains part of c and of everything '
            'that contains c; every other accepted or unresolved use leaves the containment sets alone (container slot %d)' % i, 'use')
    ask('use:witness-recorded', zand(base3, g3, records, uvec.f['len'] == bv(KU, 64)), 'witness: a use that records an edge', 'witness')
    ask('use:witness-cycle', zand(base3, g3, cyc3), 'witness: a use that closes a cycle', 'witness')
    ask('use:model-bounds', zand(pre3, znot(in_model3)), 'the bit-set and Vec models suffice for every state within the bound', 'bounds')
    flush()
    S.functions += ['Analyzer::use_constant', 'Analyzer::use_containee']

    # ---------------------------------------------------------------- native validation of both encodings
    rng = random.Random(seed() * 131 + 7)
    n_samples = 60 if tier == 'quick' else 300
    reqs = []
    for _ in range(n_samples):
        cs = random_state(rng, K)
        ids = [c['id'] for c in cs]
        ct = random_type(rng, ids, depth)
        reqs.append(('step', cs, rng.choice(ids), rng.random() < 0.5, ct))
    for _ in range(n_samples // 2):
        reqs.append(('depths', random_state(rng, K)))
    for _ in range(n_samples // 2):
        cs = random_state(rng, KU)
        ids = [c['id'] for c in cs]
        l0 = [(rng.randint(1, 3), rng.choice(ids)) for _ in range(rng.randint(0, 2))]
        layers = [l0] + ([[(rng.randint(1, 4), rng.randint(0, 7)) for _ in range(rng.randint(0, 1))]] if rng.random() < 0.6 else [])
        reqs.append(('use', cs, rng.randint(1, 4), rng.choice(ids) if rng.random() < 0.7 else None, layers))
    lines = []
    for r in reqs:
        if r[0] == 'step':
            lines.append('step %d %d %s %s' % (r[2], 1 if r[3] else 0, vtlib.wire(r[4]), wire_state(r[1])))
        elif r[0] == 'use':
            lines.append('use %d %s %s %s' % (r[2], '-' if r[3] is None else r[3],
                                              '/'.join(','.join('%d:%d' % e for e in l) or '-' for l in r[4]), wire_state(r[1])))
        else:
            lines.append('depths ' + wire_state(r[1]))
    got = native(S, lines)
    s_step = z3.Solver()
    s_step.add(*ex.assumptions)
    s_dep = z3.Solver()
    s_dep.add(*ex2.assumptions)
    s_use = z3.Solver()
    s_use.add(*ex3.assumptions)
    bad, used = [], 0
    for r, line, out in zip(reqs, lines, got):
        cons = []
        if r[0] == 'step':
            try:
                bind_state(sy, vec, r[1], cons)
                bind_type(sy, t, r[4], cons)
            except ValueError:
                continue
            cons += [cidv == bv(r[2], 32), with_member == z3.BoolVal(r[3])]
            s_step.push()
            s_step.add(*cons)
            if s_step.check() != z3.sat:
                s_step.pop()
                continue
            m = s_step.model()
            s_step.pop()
            if z3.is_true(m.eval(is_ok, model_completion=True)):
                enc_v = 'ok1'
            elif z3.is_true(m.eval(is_error, model_completion=True)):
                d = m.eval(err.discr, model_completion=True).as_long()
                enc_v = 'err%d' % error_code(S, edef.variant_by_discr(d)[1])
            else:
                enc_v = 'poisoned'
            enc = '%s | %s' % (enc_v, wire_state(sy.model_state(m, post_vec)))
            if not z3.is_true(m.eval(g, model_completion=True)):
                enc = 'PANIC'
        elif r[0] == 'use':
            bind_state(sy3, uvec, r[1], cons)
            layers = r[4]
            cons += [uname == bv(r[2], 8), has_ctx == z3.BoolVal(r[3] is not None), nl == bv(len(layers), 64),
                     n0 == bv(len(layers[0]), 64)]
            if r[3] is not None:
                cons.append(cxid == bv(r[3], 32))
            for idn, (nm, i_) in zip(lay0, layers[0]):
                cons += [idn.fields[nidx] == bv(nm, 8), idn.fields[ridx] == bv(i_, 32)]
            if len(layers) > 1:
                cons.append(n1 == bv(len(layers[1]), 64))
                for idn, (nm, i_) in zip(lay1, layers[1]):
                    cons += [idn.fields[nidx] == bv(nm, 8), idn.fields[ridx] == bv(i_, 32)]
            s_use.push()
            s_use.add(*cons)
            if s_use.check() != z3.sat:
                s_use.pop()
                continue
            m = s_use.model()
            s_use.pop()
            if z3.is_true(m.eval(ok3, model_completion=True)):
                enc_v = 'ok%d' % m.eval(out_id, model_completion=True).as_long()
            elif z3.is_true(m.eval(is_error3, model_completion=True)):
                enc_v = 'err%d' % error_code(S, edef.variant_by_discr(m.eval(err3.discr, model_completion=True).as_long())[1])
            else:
                enc_v = 'poisoned'
            enc = '%s | %s' % (enc_v, wire_state(sy3.model_state(m, upost)))
            if not z3.is_true(m.eval(g3, model_completion=True)):
                enc = 'PANIC'
        else:
            bind_state(sy2, dvec, r[1], cons)
            s_dep.push()
            s_dep.add(*cons)
            if s_dep.check() != z3.sat:
                s_dep.pop()
                continue
            m = s_dep.model()
            s_dep.pop()
            enc = wire_state(sy2.model_state(m, dpost))
        used += 1
        if enc != out:
            bad.append((line, enc, out))
    if bad:
        raise Inconclusive('encoding disagrees with the native container functions: %r' % bad[:3])
    S.validated += used
    S.exec_s += time.time() - t_start
    if unconfirmed and not pending:
        raise Inconclusive('; '.join(unconfirmed[:3]))
    for qname, text, line, got_, ct in pending:
        S.violations.append({'query': qname, 'statement': text, 'a': ct, 'b': None, 'functions': [],
                             'native_request': line, 'native_answer': got_, 'confirmed': True, 'key_extra': line})
    return {'containers': K, 'container_type_depth': depth, 'container_id_bits': W, 'native_comparisons': used}


def solve_batch(batch, timeout_s):
    """Decide the queued queries with one z3 process each, in parallel.  Returns [(answer, seconds)]."""
    import subprocess
    import tempfile
    from concurrent.futures import ThreadPoolExecutor
    from common import TARGET
    tmpdir = tempfile.mkdtemp(prefix='containers-', dir=TARGET)
    files = []
    for n, (qname, formula, text, kind, lemmas, slv) in enumerate(batch):
        s2 = z3.SolverFor('QF_BV')
        s2.add(*slv.assertions())
        s2.add(formula)
        fp = os.path.join(tmpdir, 'q%d.smt2' % n)
        with open(fp, 'w') as f:
            # z3 prints its unsigned multiplication-overflow predicate under a name its own parser does not know
            pre = ''.join('(define-fun bvumul_noovfl ((a (_ BitVec %d)) (b (_ BitVec %d))) Bool (not (bvumulo a b)))\n' % (w_, w_)
                          for w_ in (8, 16, 32, 64, 128))
            # ... and the total (division by zero as in SMT-LIB) variants of the division operators
            pre += ''.join('(define-fun %s_i ((a (_ BitVec %d)) (b (_ BitVec %d))) (_ BitVec %d) (%s a b))\n' % (op_, w_, w_, w_, op_)
                           for op_ in ('bvudiv', 'bvurem', 'bvsdiv', 'bvsrem', 'bvsmod') for w_ in (8, 16, 32, 64, 128))
            f.write('(set-logic QF_BV)\n' + pre + s2.to_smt2())
        files.append(fp)

    def one(fp):
        t = time.time()
        try:
            p = subprocess.run(['z3-new', '-T:%d' % timeout_s, fp], stdout=subprocess.PIPE, stderr=subprocess.STDOUT, text=True,
                               timeout=timeout_s + 30)
            out = p.stdout.strip()
        except subprocess.TimeoutExpired:
            out = 'timeout'
        lines = [l for l in out.split('\n') if l.strip()]
        ans = 'error' if '(error' in out else (lines[0] if lines else 'none')
        if ans == 'error' and os.environ.get('VERIF_DEBUG'):
            log('  z3 error on %s: %s' % (fp, out[:300]))
            import shutil as _sh
            _sh.copy(fp, '/tmp/z3-error.smt2')
        return ans, time.time() - t
    try:
        with ThreadPoolExecutor(max_workers=max(1, min(14, len(files)))) as pool:
            res = list(pool.map(one, files))
    finally:
        import shutil
        shutil.rmtree(tmpdir, ignore_errors=True)
    if os.environ.get('VERIF_DEBUG'):
        for (qname, *_), (a, dt) in zip(batch, res):
            log('  %s: %s %.1fs' % (qname, a, dt))
    return res


_CODES = {}


def error_code(S, variant):
    """Error::code() of a payload-free reading of the variant, taken from the source's `Error::X { .. } => n` arms."""
    if not _CODES:
        src = open(os.path.join(REPO, 'src', 'alpha', 'error.rs')).read()
        for m in re.finditer(r'Error::(\w+)\s*\{[^}]*\}\s*=>\s*(\d+)', src):
            _CODES.setdefault(m.group(1), int(m.group(2)))
    if variant not in _CODES:
        raise Inconclusive('code of Error::%s not found' % variant)
    return _CODES[variant]
