"""C12, import path resolution: `expander::get_key_offset(filename, keys, path_of_includer)` executed from MIR on
symbolic paths (at most 3 normalised components each, relative or absolute) and up to K symbolic module keys.

Rule ("importing a file makes exactly *its* public interface visible"): an import resolves to the first module whose path
is exactly the imported path, as written, and otherwise to the first module whose path is exactly the imported path taken
relative to the importer's directory; it never resolves to a module with any other path, and it resolves whenever such a
module exists.

Trusted: the model of std::path (component sequences with an `absolute` flag; equality, parent, join, ends_with), stated in
mir/mirmodels.py and validated natively on random paths every run; `.`/`..`, prefixes and trailing separators are outside.
"""
import os
import random
import time
import z3

from common import log, seed, Inconclusive
import replay
from mirsym import Executor, State, ValRef, SliceRef, EnumV, Model, Unsupported, PathAbort, bv, zand, zor, znot, zite
import mirmodels


def native(lines):
    replay.write_generated({})
    binary, _ = replay.build()
    rc, out, err = replay.run(binary, ['keyoffset-eval'], stdin='\n'.join(lines) + '\n')
    if rc != 0:
        raise Inconclusive('native import resolution failed: ' + err[-300:])
    return out.split('\n')[:len(lines)]


def fresh_path(ex, tag):
    n = mirmodels.PATH_SLOTS
    comps = [z3.BitVec('%s.c%d' % (tag, i), 8) for i in range(n)]
    ln = z3.BitVec(tag + '.len', 64)
    ex.assume(z3.ULE(ln, bv(n, 64)))
    # component tokens 0..9 (native names c0..c9)
    for c in comps:
        ex.assume(z3.ULE(c, bv(9, 8)))
    return mirmodels.new_path(comps, ln, z3.Bool(tag + '.abs'))


def path_wire(m, p):
    n = m.eval(p.f['len'], model_completion=True).as_long()
    parts = ['c%d' % m.eval(c, model_completion=True).as_long() for c in p.f['c'].fields[:n]]
    s = ('/' if z3.is_true(m.eval(p.f['abs'], model_completion=True)) else '') + '/'.join(parts)
    return s or '-'


def c_parse(s):
    if s == '-':
        return (False, [])
    return (s.startswith('/'), [x for x in s.split('/') if x])


def c_spec(filename, includer, keys):
    f, inc = c_parse(filename), c_parse(includer)
    ks = [c_parse(k) for k in keys]
    for i, k in enumerate(ks):
        if k == f:
            return str(i)
    if inc[1]:
        parent = (inc[0], inc[1][:-1])
        joined = f if f[0] else (parent[0], parent[1] + f[1])
        for i, k in enumerate(ks):
            if k == joined:
                return str(i)
    return 'none'


def run(dump, defs, tier, queries, pending, unconfirmed):
    """Appends to the caller's bookkeeping; returns (native comparisons, exec seconds, solver seconds, models used)."""
    K = 3 if tier == 'quick' else 4
    if 'get_key_offset' not in dump.fn_index:
        raise Inconclusive('expander::get_key_offset not found in the MIR dump')
    ex = Executor(dump, defs, loop_bound=K + 2)
    filename, includer = fresh_path(ex, 'imp.file'), fresh_path(ex, 'imp.includer')
    keys = [fresh_path(ex, 'imp.key%d' % i) for i in range(K)]
    nk = z3.BitVec('imp.nkeys', 64)
    ex.assume(z3.ULE(nk, bv(K, 64)))
    ex.var_bounds['imp.nkeys'] = (0, K)
    t1 = time.time()
    try:
        g, res = ex.call_function(dump.get('get_key_offset'), [ValRef(filename), SliceRef(keys, bv(0, 64), nk), ValRef(includer)],
                                  z3.BoolVal(True), State())
    except (Unsupported, PathAbort) as e:
        raise Inconclusive('cannot encode expander::get_key_offset: %s' % e)
    exec_s = time.time() - t1
    eq = mirmodels.path_eq
    act = [z3.ULT(bv(i, 64), nk) for i in range(K)]
    n = mirmodels.PATH_SLOTS
    # the imported path relative to the importer's directory (exists iff the importer's path has a last component)
    has_parent = includer.f['len'] != bv(0, 64)
    plen = includer.f['len'] - bv(1, 64)
    jcomps = []
    for i in range(n):
        v = includer.f['c'].fields[i]
        for j in range(n):
            v = zite(zand(znot(z3.ULT(bv(i, 64), plen)), plen + bv(j, 64) == bv(i, 64)), filename.f['c'].fields[j], v)
        jcomps.append(zite(filename.f['abs'], filename.f['c'].fields[i], v))
    joined = mirmodels.new_path(jcomps, zite(filename.f['abs'], filename.f['len'], plen + filename.f['len']),
                                zor(filename.f['abs'], includer.f['abs']))
    fits = zor(filename.f['abs'], znot(has_parent), z3.ULE(plen + filename.f['len'], bv(n, 64)))
    direct = [zand(act[i], eq(keys[i], filename)) for i in range(K)]
    relative = [zand(act[i], has_parent, eq(keys[i], joined)) for i in range(K)]
    is_some = res.discr == bv(1, 64)
    idx = res.variants['Some'][0] if 'Some' in res.variants else bv(0, 64)
    any_direct, any_rel = zor(*direct), zor(*relative)

    def first(hits, i):
        return zand(hits[i], *[znot(hits[j]) for j in range(i)])
    expected = zite(any_direct, zand(is_some, zor(*[zand(first(direct, i), idx == bv(i, 64)) for i in range(K)])),
                    zite(any_rel, zand(is_some, zor(*[zand(first(relative, i), idx == bv(i, 64)) for i in range(K)])), znot(is_some)))
    exact = z3.Implies(is_some, zor(*[zand(idx == bv(i, 64), zor(direct[i], relative[i])) for i in range(K)]))
    panics = [og for k_, og, _ in ex.obligations if k_ not in ('bound', 'unwind')]
    in_model = zand(fits, znot(zor(*[og for k_, og, _ in ex.obligations if k_ in ('bound', 'unwind')])))
    solver_s = 0.0

    def describe(m):
        k = m.eval(nk, model_completion=True).as_long()
        fw, iw = path_wire(m, filename), path_wire(m, includer)
        kw = [path_wire(m, x) for x in keys[:k]]
        return ('%s %s %s' % (fw, iw, ' '.join(kw))).strip(), c_spec(fw, iw, kw)

    def ask(name, formula, text, kind='claim'):
        nonlocal solver_s
        s = z3.SolverFor('QF_BV')
        s.add(*ex.assumptions)
        s.add(formula)
        t = time.time()
        r = s.check()
        dt = time.time() - t
        solver_s += dt
        if os.environ.get('VERIF_DEBUG'):
            log('  %s: %s %.2fs' % (name, r, dt))
        if r == z3.unknown:
            raise Inconclusive('z3 answered unknown on %s' % name)
        q = {'name': name, 'result': str(r), 'seconds': round(dt, 3), 'statement': text}
        if kind == 'witness':
            q['expected'] = 'sat'
            if r != z3.sat:
                unconfirmed.append('vacuity witness %s is unsatisfiable' % name)
        queries.append(q)
        if kind == 'witness' or r != z3.sat:
            return
        if kind == 'bounds':
            unconfirmed.append('%s: the bounded models are exceeded' % name)
            return
        line, want = describe(s.model())
        got = native([line])[0]
        q['counterexample'] = {'request': line, 'native': got, 'expected': want}
        if got == want:
            unconfirmed.append('counterexample of %s does not reproduce natively: %s -> %s' % (name, line, got))
            return
        pending.append((name, text, line, got))
    text = ('an import resolves to the first module whose path is exactly the imported path, else to the first module whose path is exactly '
            'the imported path relative to the importer\'s directory, else to nothing')
    ask('import:total', zand(in_model, zor(znot(g), *panics)), 'get_key_offset returns without panic')
    ask('import:exact', zand(in_model, g, znot(exact)), 'an import never resolves to a module with any other path')
    ask('import:resolution', zand(in_model, g, znot(expected)), text)
    ask('import:witness-relative', zand(in_model, g, znot(any_direct), any_rel, nk == bv(K, 64)), 'witness: an import resolved relative to the importer', 'witness')
    ask('import:witness-tail', zand(in_model, g, znot(any_direct), znot(any_rel), nk != bv(0, 64), filename.f['len'] == bv(1, 64),
                                    keys[0].f['len'] == bv(2, 64), keys[0].f['c'].fields[1] == filename.f['c'].fields[0]),
        'witness: a module whose path merely ends in the imported name (must not be picked)', 'witness')
    ask('import:model-bounds', zand(fits, znot(in_model)), 'the path and slice models suffice', 'bounds')

    # native validation of the encoding (and with it of the std::path model)
    rng = random.Random(seed() * 67 + 1)

    def rnd_path():
        return ('/' if rng.random() < 0.3 else '') + '/'.join('c%d' % rng.randint(0, 3) for _ in range(rng.randint(0, 3))) or '-'
    reqs = []
    for _ in range(150 if tier == 'quick' else 600):
        f = rnd_path()
        inc = rnd_path()
        ks = [rnd_path() for _ in range(rng.randint(0, K))]
        if rng.random() < 0.5 and ks:
            # make a relative or direct hit likely
            fi, ii = c_parse(f), c_parse(inc)
            if rng.random() < 0.5 and ii[1] and not fi[0] and len(ii[1]) - 1 + len(fi[1]) <= 3:
                ks[rng.randrange(len(ks))] = (('/' if ii[0] else '') + '/'.join(ii[1][:-1] + fi[1])) or '-'
            else:
                ks[rng.randrange(len(ks))] = f
        reqs.append((f, inc, [k if k != '/' else '/c1' for k in ks]))
    lines = [('%s %s %s' % (f, inc, ' '.join(ks))).strip() for f, inc, ks in reqs]
    outs = native(lines)
    s2 = z3.SolverFor('QF_BV')
    s2.add(*ex.assumptions)
    used, bad = 0, []

    def bind_path(p, w):
        ab, comps = c_parse(w)
        cons = [p.f['abs'] == z3.BoolVal(ab), p.f['len'] == bv(len(comps), 64)]
        for c, name in zip(p.f['c'].fields, comps):
            cons.append(c == bv(int(name[1:]), 8))
        return cons
    for (f, inc, ks), line, outl in zip(reqs, lines, outs):
        if f == '/' or inc == '/':
            continue
        cons = bind_path(filename, f) + bind_path(includer, inc) + [nk == bv(len(ks), 64)]
        for p, w in zip(keys, ks):
            cons += bind_path(p, w)
        s2.push()
        s2.add(*cons)
        if s2.check() != z3.sat:
            s2.pop()
            continue
        m = s2.model()
        s2.pop()
        if not z3.is_true(m.eval(in_model, model_completion=True)):
            continue
        enc = str(m.eval(idx, model_completion=True).as_long()) if z3.is_true(m.eval(is_some, model_completion=True)) else 'none'
        used += 1
        if enc != outl:
            bad.append((line, enc, outl))
    if bad:
        raise Inconclusive('encoding (std::path model) disagrees with the native get_key_offset: %r' % bad[:3])
    return used, exec_s, solver_s, {k: int(v) for k, v in ex.used_models.items()}, list(ex.inlined)
