"""C08 (rule kernel): `mutability::needs_outer_mutability` decides whether assigning through a reference needs
the base variable itself to be mutable.  For every sequence of up to K access steps the solver decides that the
answer is "no" exactly when the reference passes through a pointer (an autoderef step or a deslice by pointer),
the documented exception to "only vars and explicitly passed pointers can be mutated"."""
import itertools
import os
import random
import time
import z3

from common import REPO, log, mir_dump, write_evidence, write_replay, known_keys, Inconclusive, seed, cross_check_smt2
import replay
from mirparse import MirDump
from rustdefs import RustDefs
from mirsym import Executor, State, ValRef, Agg, Model, Opaque, EnumV, Unsupported, bv, zand, zor, znot

PROP = 'C08'


def native(lines):
    replay.write_generated({})
    binary, _ = replay.build()
    rc, out, err = replay.run(binary, ['mut-eval'], stdin='\n'.join(lines) + '\n')
    if rc != 0:
        raise Inconclusive('native evaluation failed: ' + err[-300:])
    res = out.split('\n')[:len(lines)]
    if len(res) != len(lines):
        raise Inconclusive('native evaluation: %d answers for %d requests' % (len(res), len(lines)))
    return res


def step_name(sdef, ddef, m, step):
    d = m.eval(step.discr, model_completion=True).as_long()
    name = sdef.variant_by_discr(d)[1]
    if name == 'Autodeslice':
        off = step.variants['Autodeslice'][0]
        name += ':' + ddef.variant_by_discr(m.eval(off.discr, model_completion=True).as_long())[1]
    if name == 'Element':
        names = [n for n, _ in sdef.variant_by_name('Element')[2]]
        e = step.variants['Element'][names.index('is_endless')]
        if m.eval(e.discr, model_completion=True).as_long() == 1:
            name += ':true' if z3.is_true(m.eval(e.variants['Some'][0], model_completion=True)) else ':false'
        else:
            name += ':none'
    if name == 'Member':
        names = [n for n, _ in sdef.variant_by_name('Member')[2]]
        o = step.variants['Member'][names.index('offset')]
        if m.eval(o.discr, model_completion=True).as_long() == 1:
            name += ':some'
    return name


def run(tier):
    K = 4 if tier == 'quick' else 7
    t0 = time.time()
    path, dump_s = mir_dump()
    dump = MirDump(path)
    defs = RustDefs(os.path.join(REPO, 'src'))
    sdef = defs.find_enum('alpha::common::ReferenceStep')
    ddef = defs.find_enum('alpha::common::DesliceOffset')
    rdef = defs.find_struct('alpha::common::Reference')
    if not (sdef and ddef and rdef):
        raise Inconclusive('Reference / ReferenceStep / DesliceOffset not found in the source')
    ex = Executor(dump, defs, loop_bound=K + 2)
    ex.abstract_types = {'Identifier': 16}
    steps = [ex.fresh_value('alpha::common::ReferenceStep', 'step%d' % i, depth=1,
                            expand=lambda b: b in ('ReferenceStep', 'DesliceOffset')) for i in range(K)]
    n = z3.BitVec('nsteps', 64)
    ex.assume(z3.ULE(n, bv(K, 64)))
    ex.var_bounds['nsteps'] = (0, K)
    fields = []
    for fname, ft in rdef.fields:
        if fname == 'steps':
            fields.append(Model('vec', items=Agg(steps, 'vecitems'), len=n, cap=bv(K, 64)))
        elif fname == 'address_depth':
            fields.append(z3.BitVec('address_depth', 8))
        else:
            fields.append(Opaque(fname))
    if 'steps' not in [f for f, _ in rdef.fields]:
        raise Inconclusive('Reference has no field `steps`')
    reference = Agg(fields, 'Reference')
    try:
        g, res = ex.call_function(dump.get('needs_outer_mutability'), [ValRef(reference)], z3.BoolVal(True), State())
    except (Unsupported, KeyError) as e:
        raise Inconclusive('cannot encode needs_outer_mutability: %s' % e)
    exec_s = time.time() - t0 - dump_s
    d_autoderef = sdef.variant_by_name('Autoderef')[1]
    d_deslice = sdef.variant_by_name('Autodeslice')[1]
    d_byptr = ddef.variant_by_name('ArrayByPointer')[1]
    through_pointer = zor(*[zand(z3.ULT(bv(i, 64), n),
                                 zor(s.discr == bv(d_autoderef, 64),
                                     zand(s.discr == bv(d_deslice, 64), s.variants['Autodeslice'][0].discr == bv(d_byptr, 64))))
                            for i, s in enumerate(steps)])
    queries, pending = [], []
    solver_s = 0.0

    def ask(qname, formula, text):
        nonlocal solver_s
        s = z3.Solver()
        s.add(*ex.assumptions)
        s.add(formula)
        t = time.time()
        r = s.check()
        dt = time.time() - t
        solver_s += dt
        if r == z3.unknown:
            raise Inconclusive('z3 answered unknown on %s' % qname)
        q = {'name': qname, 'result': str(r), 'seconds': round(dt, 3), 'statement': text}
        queries.append(q)
        if r == z3.sat:
            m = s.model()
            ln = m.eval(n, model_completion=True).as_long()
            line = ' '.join(step_name(sdef, ddef, m, st) for st in steps[:ln])
            got = native([line])[0]
            enc = 'true' if z3.is_true(m.eval(res, model_completion=True)) else 'false'
            q['counterexample'] = {'steps': line, 'native': got}
            if got != enc and qname != 'kernel-total':
                raise Inconclusive('counterexample [%s] does not reproduce natively: native %s, encoding %s' % (line, got, enc))
            pending.append((qname, text, line, got))
        else:
            q['cross_check'] = cross_check_smt2('(set-logic ALL)\n' + s.to_smt2(), 'unsat')

    obs = [og for _, og, _ in ex.obligations]
    ask('kernel-total', zor(znot(g), *obs), 'needs_outer_mutability returns for every step sequence within the bound, without panic')
    ask('outer-mutability-rule', zand(g, res != znot(through_pointer)),
        'the base variable must be mutable unless the reference passes through a pointer')
    # with the mutability bit: the E530 verdict table
    is_mutable = z3.Bool('is_mutable')
    e530 = zand(res, znot(is_mutable))
    ask('e530-table', zand(g, e530 != zand(znot(through_pointer), znot(is_mutable))),
        'assigning through an immutable base is an error (E530) exactly when no pointer is passed through')

    # native validation of the encoding on every sequence of up to 2 steps and sampled longer ones
    names = ['Element', 'Element:true', 'Element:false', 'Member', 'Member:some', 'Autodeslice:ArrayByView', 'Autodeslice:ArrayByPointer', 'Autodeslice:Length', 'Autoderef', 'Autoview']
    rng = random.Random(seed() * 17 + 1)
    seqs = [()] + [(a,) for a in names] + list(itertools.product(names, names))
    seqs += [tuple(rng.choice(names) for _ in range(rng.randint(3, K))) for _ in range(60 if tier == 'quick' else 400)]
    lines = [' '.join(sq) for sq in seqs]
    got = native(lines)
    s2 = z3.Solver()
    s2.add(*ex.assumptions)
    bad = []
    for sq, r_n in zip(seqs, got):
        s2.push()
        s2.add(n == bv(len(sq), 64))
        for st, nm in zip(steps, sq):
            base = nm.split(':')[0]
            s2.add(st.discr == bv(sdef.variant_by_name(base)[1], 64))
            if base == 'Autodeslice':
                s2.add(st.variants['Autodeslice'][0].discr == bv(ddef.variant_by_name(nm.split(':')[1])[1], 64))
            if base == 'Element':
                fn_ = [n for n, _ in sdef.variant_by_name('Element')[2]]
                e = st.variants['Element'][fn_.index('is_endless')]
                if ':' in nm:
                    s2.add(e.discr == bv(1, 64), e.variants['Some'][0] == (nm.endswith('true')))
                else:
                    s2.add(e.discr == bv(0, 64))
        assert s2.check() == z3.sat
        enc = 'true' if z3.is_true(s2.model().eval(res, model_completion=True)) else 'false'
        s2.pop()
        if enc != r_n:
            bad.append((sq, enc, r_n))
    if bad:
        raise Inconclusive('encoding disagrees with the native function: %r' % bad[:3])

    # the verdict clauses of the whole pass (use_variable, the Assignment and Deref arms, what declarations record)
    import mutcheck
    MC = mutcheck.run(tier)
    # the copy clauses (E531-E533) of function_calls.rs, on the same bookkeeping
    import fcallcheck
    fcallcheck.run(MC)
    # the call clause (E510-E513, "a pointer parameter requires an explicit &"): use_function as one call
    import vtcheck
    import argcheck
    S8 = vtcheck.Session(PROP, 1)
    try:
        argcheck.run(S8, tier)
    except Inconclusive as e:
        # the native validation of the call clause goes through the call arms of the pass; when those arms already have a
        # natively replayed violation (error-kept), that violation is the report and the call clause is left undecided
        if not [p_ for p_ in MC.pending if ':error-kept' in p_[0] or ':accepted-stays-call' in p_[0]]:
            raise
        log('call clause undecided (%s): the call arms themselves violate error-kept, reported below' % str(e)[:120])
    MC.queries += S8.queries
    MC.solver_s += S8.solver_s
    MC.exec_s += S8.exec_s
    MC.functions += S8.functions
    MC.used += S8.validated
    for v in S8.violations:
        MC.pending.append((v['query'], v['statement'], v['native_request'], v['native_answer']))
    if MC.unconfirmed and not (MC.pending or pending):
        raise Inconclusive('; '.join(MC.unconfirmed[:3]))
    known = known_keys(PROP)
    out_v = []
    for qname, text, line, got_ in pending:
        key = '%s:%s' % (qname, line)
        what = '%s fails for steps [%s]: native needs_outer_mutability = %s (%s)' % (qname, line, got_, text)
        if key in known:
            log('KNOWN-FINDING: property=%s %s' % (PROP, what))
            continue
        rp = write_replay(PROP, key, {'property': PROP, 'query': qname, 'statement': text, 'steps': line, 'native': got_,
                                      'how': 'echo "%s" | pv_replay mut-eval' % line})
        out_v.append((what, rp))
    for qname, text, line, got_ in MC.pending:
        key = '%s:%s' % (qname, line)
        what = '%s fails for [%s]: the pass answers %s (%s)' % (qname, line, got_, text)
        if key in known:
            log('KNOWN-FINDING: property=%s %s' % (PROP, what))
            continue
        tool = 'call-eval' if (qname.startswith('call:') or qname.endswith(':error-kept')) else 'fcall-eval' if qname.startswith('copy:') else ('typer-eval' if line.startswith('declared ') else 'mutpass-eval')
        rp = write_replay(PROP, key, {'property': PROP, 'query': qname, 'statement': text, 'request': line, 'native': got_, 'tool': tool,
                                      'how': 'echo "%s" | pv_replay %s' % (line, tool)})
        out_v.append((what, rp))
    queries += MC.queries
    solver_s += MC.solver_s
    exec_s += MC.exec_s
    wall = time.time() - t0
    cov = {
        'states': len(queries) + MC.blocks, 'transitions': max(1, int(ex.stats['loop_iterations'])), 'traces_validated_against_impl': len(lines) + MC.used,
        'samples': queries,
        'explanation': 'needs_outer_mutability symbolically executed from MIR over a Reference whose `steps` vector holds up to '
                       '%d symbolic ReferenceStep values (symbolic length); the loop is unrolled %d times with an unwinding '
                       'obligation.  Verdict clauses (mutcheck.py): Analyzer::use_variable, the Assignment arm of Statement::analyze and the '
                       'Deref arm of Expression::analyze on a symbolic reference of up to %d steps, and the Declaration/Parameter/Member/'
                       'Constant forms, each as one step from an arbitrary map of %d symbolic entries; analysis of sub-expressions is havoc '
                       '(justified by the call-graph frame check).' % (K, K + 2, MC.K, MC.N),
        'functions_encoded': sorted(set(['needs_outer_mutability'] + MC.functions)),
        'bounds': {'max_steps': K, 'verdict_clause_steps': MC.K, 'map_entries': MC.N,
                   'outside': 'references with more than %d steps; maps with more entries (the clauses are per-entry, so this is a model bound only)' % K},
        'vacuity_witnesses_sat': len([q for q in queries if q.get('expected') == 'sat']),
        'queries_discharged': len(queries), 'queries_unsat': len([q for q in queries if q['result'] == 'unsat']),
        'solver_time_s': round(solver_s, 3), 'symbolic_execution_s': round(exec_s, 3), 'mir_dump_s': round(dump_s, 2),
        'std_models_used': {k: int(v) for k, v in ex.used_models.items()},
        'outside_claim': ['how the arms compose over whole function bodies (each arm is decided on its own, children havoc)',
                          'calls with more than %d parameters (the call clause is per position, so this is a model bound only); index expressions inside references in the copy clauses' % (3 if tier == 'quick' else 5),
                          'the run-time non-interference consequence'],
    }
    write_evidence(PROP, tier, 'model_checking', cov, wall,
                   ['rustc nightly MIR dump', 'mirsym and its models (Vec as fixed slots with symbolic length, slice iterator)',
                    'native validation through the guarded hook analyzer::verif_mutability_hooks'], violations=len(out_v))
    log('%s: K=%d, %d queries (%d unsat, %d witnesses sat as required), %d native comparisons, wall %.1fs'
        % (PROP, K, len(queries), cov['queries_unsat'], cov['vacuity_witnesses_sat'], len(lines) + MC.used, wall))
    for what, rp in out_v:
        log('VIOLATION property=%s replay=%s' % (PROP, rp))
        log('  ' + what)
    return 1 if out_v else 0


def replay_file(path):
    import json
    r = json.load(open(path))
    if 'request' in r:
        import mutcheck
        import fcallcheck
        tool = r.get('tool', 'mutpass-eval')
        import argcheck
        got = (argcheck.native if tool == 'call-eval' else fcallcheck.native if tool == 'fcall-eval' else (mutcheck.native_typer if tool == 'typer-eval' else mutcheck.native))([r['request']])[0]
        log('native mutability pass [%s] -> %s (recorded %s)' % (r['request'], got, r['native']))
        if got == r['native']:
            log('VIOLATION property=%s replay=%s' % (PROP, path))
            return 1
        return 0
    got = native([r['steps']])[0]
    log('native needs_outer_mutability([%s]) = %s (recorded %s)' % (r['steps'], got, r['native']))
    if got == r['native']:
        log('VIOLATION property=%s replay=%s' % (PROP, path))
        return 1
    return 0
