"""Concrete <-> symbolic ValueType plumbing shared by the C07 / C09 / C11 checks."""
import itertools
import random
import re
import z3

from mirsym import EnumV, BoxV, ValRef, bv
from common import Inconclusive

# concrete types are tuples: (variant, field, field, ...); Box fields hold a nested tuple,
# usize fields ints, I fields ints (identifier tokens), Option<I> fields None or int.


def field_kinds(edef):
    kinds = {}
    for vname, d, fields in edef.variants:
        ks = []
        for fname, ft in fields:
            ft = ft.strip()
            if ft.startswith('Box<'):
                ks.append('box')
            elif ft == 'usize':
                ks.append('usize')
            elif ft == 'I':
                ks.append('id')
            elif ft == 'Option<I>':
                ks.append('optid')
            else:
                raise Inconclusive('ValueType::%s has a field of unsupported type %s' % (vname, ft))
        kinds[vname] = ks
    return kinds


def wire(t):
    """Serialise a concrete type for pv_replay."""
    v, fs = t[0], t[1:]
    if not fs:
        return v
    parts = []
    for f in fs:
        if isinstance(f, tuple):
            parts.append(wire(f))
        elif f is None:
            parts.append('none')
        else:
            parts.append(str(f))
    return '%s(%s)' % (v, ','.join(parts))


def rust_expr(t, kinds):
    v, fs = t[0], t[1:]
    if not fs:
        return 'ValueType::%s' % v
    names = FIELD_NAMES.get(v)
    parts = []
    for i, (f, k) in enumerate(zip(fs, kinds[v])):
        if k == 'box':
            e = 'Box::new(%s)' % rust_expr(f, kinds)
        elif k == 'usize':
            e = '%dusize' % f
        elif k == 'id':
            e = 'Id(%d)' % f
        else:
            e = 'None' if f is None else 'Some(Id(%d))' % f
        parts.append('%s: %s' % (names[i], e) if names else e)
    return 'ValueType::%s { %s }' % (v, ', '.join(parts))


FIELD_NAMES = {}


def init_names(edef):
    for vname, d, fields in edef.variants:
        FIELD_NAMES[vname] = [fn for fn, _ in fields]


def depth_of(t):
    subs = [depth_of(f) for f in t[1:] if isinstance(f, tuple)]
    return 1 + max(subs) if subs else 0


def leaves(kinds):
    out = []
    for v, ks in kinds.items():
        if 'box' in ks:
            continue
        choices = []
        for k in ks:
            if k == 'usize':
                choices.append([1, 8])
            elif k == 'id':
                choices.append([1, 2])
            else:
                choices.append([None, 1])
        for combo in itertools.product(*choices):
            out.append((v,) + combo)
    return out


def wrap(kinds, inner_list):
    out = []
    for v, ks in kinds.items():
        if 'box' not in ks:
            continue
        for inner in inner_list:
            choices = []
            for k in ks:
                if k == 'box':
                    choices.append([inner])
                elif k == 'usize':
                    choices.append([0, 3])
                elif k == 'id':
                    choices.append([1, 2])
                else:
                    choices.append([None, 1])
            for combo in itertools.product(*choices):
                out.append((v,) + combo)
    return out


def corpus(kinds, depth, rng, cap):
    """Concrete types up to `depth`; levels beyond 1 are sampled (seeded) down to `cap` per level."""
    lv = [leaves(kinds)]
    for d in range(depth):
        nxt = wrap(kinds, lv[-1])
        if len(nxt) > cap:
            nxt = rng.sample(nxt, cap)
        lv.append(nxt)
    return lv


def assignment(sym, t, kinds, out):
    """Bind the variables of the symbolic value `sym` so that it denotes the concrete type t."""
    if isinstance(sym, ValRef):
        sym = sym.val
    v, fs = t[0], t[1:]
    i, d, _ = sym.edef.variant_by_name(v)
    out.append((sym.discr, bv(d, 64)))
    if v not in sym.variants:
        raise Inconclusive('concrete type deeper than the symbolic value')
    for f, k, sf in zip(fs, kinds[v], sym.variants[v]):
        if k == 'box':
            assignment(sf.content, f, kinds, out)
        elif k == 'usize':
            out.append((sf, bv(f, 64)))
        elif k == 'id':
            out.append((sf, bv(f, 16)))
        else:
            out.append((sf.discr, bv(0 if f is None else 1, 64)))
            if f is not None:
                out.append((sf.variants['Some'][0], bv(f, 16)))
    return out


def all_vars(sym, acc=None):
    if acc is None:
        acc = {}
    if isinstance(sym, ValRef):
        return all_vars(sym.val, acc)
    if isinstance(sym, BoxV):
        if sym.content is not None:
            all_vars(sym.content, acc)
        return acc
    if isinstance(sym, EnumV):
        acc[sym.discr.get_id()] = sym.discr
        for fs in sym.variants.values():
            for f in fs:
                all_vars(f, acc)
        return acc
    if isinstance(sym, z3.ExprRef):
        acc[sym.get_id()] = sym
    return acc


def complete(pairs, universe):
    """Extend a partial assignment: unassigned variables get 0/false."""
    bound = {a.get_id() for a, _ in pairs}
    full = list(pairs)
    for vid, var in universe.items():
        if vid not in bound:
            if z3.is_bool(var):
                full.append((var, z3.BoolVal(False)))
            else:
                full.append((var, z3.BitVecVal(0, var.size())))
    return full


_complete_cache = {}


def eval_concrete_any(v, pairs, universe):
    """Evaluate a symbolic value (term or Option-like EnumV) under a partial assignment."""
    key = id(pairs)
    full = _complete_cache.get(key)
    if full is None or full[0] is not pairs:
        full = (pairs, complete(pairs, universe))
        _complete_cache[key] = full
    full = full[1]
    return _subst_any(v, full)


def _subst_any(v, full):
    if isinstance(v, EnumV):
        return EnumV(v.edef, z3.simplify(z3.substitute(v.discr, *full)),
                     {k: tuple(_subst_any(f, full) for f in fs) for k, fs in v.variants.items()})
    return z3.simplify(z3.substitute(v, *full))


def model_eval_any(model, v):
    if isinstance(v, EnumV):
        return EnumV(v.edef, model.eval(v.discr, model_completion=True),
                     {k: tuple(model_eval_any(model, f) for f in fs) for k, fs in v.variants.items()})
    return model.eval(v, model_completion=True)


def from_model(model, sym, kinds):
    """Concrete type denoted by `sym` in `model`."""
    if isinstance(sym, ValRef):
        sym = sym.val
    d = model.eval(sym.discr, model_completion=True).as_long()
    if d >= (1 << 63):
        d -= 1 << 64
    _, v, _ = sym.edef.variant_by_discr(d)
    fs = []
    for k, sf in zip(kinds[v], sym.variants[v]):
        if k == 'box':
            fs.append(from_model(model, sf.content, kinds))
        elif k in ('usize', 'id'):
            fs.append(model.eval(sf, model_completion=True).as_long())
        else:
            some = model.eval(sf.discr, model_completion=True).as_long() == 1
            fs.append(model.eval(sf.variants['Some'][0], model_completion=True).as_long() if some else None)
    return (v,) + tuple(fs)


# ------------------------------------------------------------------------------ native side
def gen_value_types_rs(edef, unary, binary, kinds):
    """Rust source of the pv_replay module that parses wire types and evaluates the public API."""
    arms = []
    for vname, d, fields in edef.variants:
        ks = kinds[vname]
        if not ks:
            arms.append('            "%s" => ValueType::%s,' % (vname, vname))
            continue
        seq = ["p.expect(b'(');"]
        for i, ((fname, ft), k) in enumerate(zip(fields, ks)):
            if i:
                seq.append("p.expect(b',');")
            e = {'box': 'Box::new(p.ty())', 'usize': 'p.num() as usize', 'id': 'Id(p.num() as u16)',
                 'optid': 'p.optid()'}[k]
            seq.append('let f%d = %s;' % (i, e))
        seq.append("p.expect(b')');")
        ctor = ', '.join('%s: f%d' % (fname, i) for i, (fname, ft) in enumerate(fields))
        arms.append('            "%s" => { let p = &mut *self; %s ValueType::%s { %s } }' % (vname, ' '.join(seq), vname, ctor))
    arms_c = [a.replace('Id(p.num() as u16)', 'cid(p.num() as u32)').replace('p.optid()', 'p.optid().map(|i| cid(i.0 as u32))')
              .replace('Box::new(p.ty())', 'Box::new(p.cty())') for a in arms]
    # printer for ValueType<common::Identifier> in the same wire format
    warms = []
    for vname, d, fields in edef.variants:
        ks = kinds[vname]
        if not ks:
            warms.append('        ValueType::%s => "%s".to_string(),' % (vname, vname))
            continue
        pat = ', '.join('%s: f%d' % (fname, i) for i, (fname, ft) in enumerate(fields))
        parts = []
        for i, k in enumerate(ks):
            parts.append({'box': 'cwire(f%d)' % i, 'usize': 'format!("{}", f%d)' % i, 'id': 'format!("{}", f%d.resolution_id)' % i,
                          'optid': 'match f%d { Some(x) => format!("{}", x.resolution_id), None => "none".to_string() }' % i}[k])
        warms.append('        ValueType::%s { %s } => format!("%s({})", [%s].join(",")),' % (vname, pat, vname, ', '.join(parts)))
    un = '\n'.join('            "%s" => show(a.%s()),' % (f, f) for f in unary)
    bi = '\n'.join('            "%s" => show(a.%s(&b.clone().unwrap())),' % (f, f) for f in binary)
    return RS_TEMPLATE.replace('@ARMS@', '\n'.join(arms)).replace('@ARMSC@', '\n'.join(arms_c)).replace('@WIREARMS@', '\n'.join(warms)).replace('@UNARY@', un).replace('@BINARY@', bi)


RS_TEMPLATE = r'''// generated: parses wire-format types and evaluates the public ValueType API natively
use penne::alpha::value_type::{Identifier, ValueType as VT};
use std::io::BufRead;

#[derive(Clone, PartialEq, Debug)]
pub struct Id(pub u16);
impl Identifier for Id {}
type ValueType = VT<Id>;

struct P<'a> { s: &'a [u8], i: usize }
impl<'a> P<'a> {
    fn expect(&mut self, c: u8) { assert_eq!(self.s[self.i], c, "at {}", self.i); self.i += 1; }
    fn word(&mut self) -> &'a str {
        let st = self.i;
        while self.i < self.s.len() && (self.s[self.i].is_ascii_alphanumeric()) { self.i += 1; }
        std::str::from_utf8(&self.s[st..self.i]).unwrap()
    }
    fn num(&mut self) -> u128 { self.word().parse().unwrap() }
    fn optid(&mut self) -> Option<Id> {
        let w = self.word();
        if w == "none" { None } else { Some(Id(w.parse().unwrap())) }
    }
    fn ty(&mut self) -> ValueType {
        let w = self.word();
        match w {
@ARMS@
            other => panic!("unknown variant {other}"),
        }
    }
}

// ---- the same grammar for ValueType<common::Identifier>, used by the resolver hooks
type CVT = penne::alpha::common::ValueType;
fn cid(n: u32) -> penne::alpha::common::Identifier {
    penne::alpha::common::Identifier {
        name: format!("id{n}"),
        location: penne::alpha::lexer::Location { source_filename: String::new(), span: 0..0, line_number: 1, line_offset: 1 },
        resolution_id: n,
        is_authoritative: true,
    }
}
impl<'a> P<'a> {
    fn cty(&mut self) -> CVT {
        use penne::alpha::value_type::ValueType;
        let w = self.word();
        match w {
@ARMSC@
            other => panic!("unknown variant {other}"),
        }
    }
}

pub fn run_resolver() {
    use penne::alpha::common::{BinaryOp, ComparisonOp, UnaryOp};
    use penne::alpha::resolver::verif_hooks as h;
    let stdin = std::io::stdin();
    for line in stdin.lock().lines() {
        let line = line.unwrap();
        let w: Vec<&str> = line.split(' ').collect();
        let ty = |s: &str| P { s: s.as_bytes(), i: 0 }.cty();
        let r = std::panic::catch_unwind(|| match w[0] {
            "conv" => h::is_valid_primitive_conversion(&ty(w[1]), &ty(w[2])),
            "bitcast" => h::is_valid_bit_cast(&ty(w[1]), &ty(w[2])),
            "operands" => h::operand_types_match(ty(w[1]), ty(w[2])),
            "binop" => {
                let op = match w[1] {
                    "Add" => BinaryOp::Add, "Subtract" => BinaryOp::Subtract, "Multiply" => BinaryOp::Multiply,
                    "Divide" => BinaryOp::Divide, "Modulo" => BinaryOp::Modulo, "BitwiseAnd" => BinaryOp::BitwiseAnd,
                    "BitwiseOr" => BinaryOp::BitwiseOr, "BitwiseXor" => BinaryOp::BitwiseXor,
                    "ShiftLeft" => BinaryOp::ShiftLeft, "ShiftRight" => BinaryOp::ShiftRight,
                    "AdvancePointer" => BinaryOp::AdvancePointer, o => panic!("binop {o}"),
                };
                h::binary_op_accepts(op, ty(w[2]))
            }
            "cmpop" => {
                let op = match w[1] {
                    "Equals" => ComparisonOp::Equals, "DoesNotEqual" => ComparisonOp::DoesNotEqual,
                    "IsGreater" => ComparisonOp::IsGreater, "IsGE" => ComparisonOp::IsGE,
                    "IsLess" => ComparisonOp::IsLess, "IsLE" => ComparisonOp::IsLE, o => panic!("cmpop {o}"),
                };
                h::comparison_op_accepts(op, ty(w[2]))
            }
            "unop" => {
                let op = match w[1] {
                    "Negative" => UnaryOp::Negative, "BitwiseComplement" => UnaryOp::BitwiseComplement,
                    o => panic!("unop {o}"),
                };
                h::unary_op_accepts(op, ty(w[2]))
            }
            o => panic!("unknown request {o}"),
        });
        match r {
            Ok(b) => println!("{}", b),
            Err(_) => println!("PANIC"),
        }
    }
}

// call-eval: `call|callx <np> {<P|poison> <name ok 0|1>}*np <na> {<d|o> <A|none|poison>}*na`
//   a call of a function with np parameters by na arguments (d: a plain Deref expression, o: the same in parentheses),
//   through the public Analyzer::declare / Analyzer::analyze; answers the first of the four call errors or `ok`
pub fn run_call() {
    use penne::alpha::common::*;
    use penne::alpha::error::Poison;
    use penne::alpha::value_type::ValueType;
    let loc = || penne::alpha::lexer::Location { source_filename: String::new(), span: 0..0, line_number: 1, line_offset: 1 };
    let stdin = std::io::stdin();
    for line in stdin.lock().lines() {
        let line = line.unwrap();
        let w: Vec<String> = line.split(' ').filter(|x| !x.is_empty()).map(|x| x.to_string()).collect();
        let r = std::panic::catch_unwind(move || {
            let mut i = 1;
            let np: usize = w[i].parse().unwrap();
            i += 1;
            let mut parameters = Vec::new();
            for k in 0..np {
                let value_type = if w[i] == "poison" { Err(Poison::Poisoned) } else { Ok(P { s: w[i].as_bytes(), i: 0 }.cty()) };
                let name = if w[i + 1] == "1" { Ok(cid(100 + k as u32)) } else { Err(Poison::Poisoned) };
                parameters.push(Parameter { name, value_type, location_of_type: loc() });
                i += 2;
            }
            let na: usize = w[i].parse().unwrap();
            i += 1;
            let mut arguments = Vec::new();
            for k in 0..na {
                let deref_type = match w[i + 1].as_str() {
                    "none" => None,
                    "poison" => Some(Err(Poison::Poisoned)),
                    t => Some(Ok(P { s: t.as_bytes(), i: 0 }.cty())),
                };
                let deref = Expression::Deref {
                    reference: Reference { base: Ok(cid(200 + k as u32)), steps: Vec::new(), address_depth: 0, location: loc(), location_of_unaddressed: loc() },
                    deref_type,
                };
                arguments.push(if w[i] == "d" { deref } else { Expression::Parenthesized { inner: Box::new(deref), location: loc() } });
                i += 2;
            }
            let callee = Declaration::FunctionHead {
                name: cid(50), parameters, return_type: Ok(ValueType::Void), flags: Default::default(),
                location_of_declaration: loc(), location_of_return_type: loc(),
            };
            let caller = Declaration::Function {
                name: cid(51), parameters: Vec::new(),
                body: Ok(if w[0] == "callx" {
                    // the call as an expression: the function's return value
                    FunctionBody { statements: Vec::new(), return_value: Some(Expression::FunctionCall { name: cid(50), builtin: None, arguments, return_type: None }), return_value_identifier: cid(52) }
                } else {
                    FunctionBody { statements: vec![Statement::MethodCall { name: cid(50), builtin: None, arguments }], return_value: None, return_value_identifier: cid(52) }
                }),
                return_type: Ok(ValueType::Void), flags: Default::default(), location_of_declaration: loc(), location_of_return_type: loc(),
            };
            let mut analyzer = penne::alpha::analyzer::Analyzer::default();
            analyzer.declare(&callee);
            analyzer.declare(&caller);
            let out = format!("{:?}", analyzer.analyze(caller));
            for n in ["TooFewArguments", "TooManyArguments", "ArgumentMissingAddress", "ArgumentTypeMismatch"] {
                if out.contains(n) { return n.to_string(); }
            }
            "ok".to_string()
        });
        match r {
            Ok(s) => println!("{}", s),
            Err(_) => println!("PANIC"),
        }
    }
}

pub fn run_lint() {
    use penne::alpha::common::{Declaration, Expression};
    let loc = || penne::alpha::lexer::Location { source_filename: String::new(), span: 0..0, line_number: 1, line_offset: 1 };
    let stdin = std::io::stdin();
    for line in stdin.lock().lines() {
        let line = line.unwrap();
        let w: Vec<&str> = line.split(' ').collect();
        let vt = P { s: w[2].as_bytes(), i: 0 }.cty();
        let value = match w[0] {
            "signed" => Expression::SignedIntegerLiteral { value: w[1].parse::<i128>().unwrap(), value_type: Some(Ok(vt.clone())), location: loc() },
            "bit" => Expression::BitIntegerLiteral { value: w[1].parse::<u128>().unwrap(), value_type: Some(Ok(vt.clone())), location: loc() },
            o => panic!("unknown literal kind {o}"),
        };
        let decl = Declaration::Constant {
            name: cid(1), value, value_type: Ok(vt), flags: Default::default(), depth: None,
            location_of_declaration: loc(), location_of_type: loc(),
        };
        let mut linter = penne::alpha::linter::Linter::default();
        linter.lint(&decl);
        let lints: Vec<penne::alpha::linter::Lint> = linter.into();
        let codes: Vec<u16> = lints.iter().map(|l| l.code()).collect();
        println!("{:?}", codes);
    }
}

fn cwire(t: &CVT) -> String {
    use penne::alpha::value_type::ValueType;
    match t {
@WIREARMS@
    }
}

pub fn run_typer() {
    use penne::alpha::typer::verif_hooks as h;
    use penne::alpha::error::Error;
    let stdin = std::io::stdin();
    for line in stdin.lock().lines() {
        let line = line.unwrap();
        let w: Vec<String> = line.split(' ').filter(|x| !x.is_empty()).map(|x| x.to_string()).collect();
        let r = std::panic::catch_unwind(move || match w[0].as_str() {
            // fix <context 0..3> <extern 0|1> <type>
            "fix" => {
                let ty = P { s: w[3].as_bytes(), i: 0 }.cty();
                match h::fix_type_for_flags(ty, w[1].parse().unwrap(), w[2] == "1") {
                    Ok(t) => format!("ok {}", cwire(&t)),
                    Err(e) => format!("err{}", e.code()),
                }
            }
            // fixwf <context 0..3> <extern 0|1> <type>: is the fixed type well-formed?
            "fixwf" => {
                let ty = P { s: w[3].as_bytes(), i: 0 }.cty();
                match h::fix_type_for_flags(ty, w[1].parse().unwrap(), w[2] == "1") {
                    Ok(t) => format!("ok {} {}", cwire(&t), if t.is_wellformed() { "wellformed" } else { "illformed" }),
                    Err(e) => format!("err{}", e.code()),
                }
            }
            // declared <form 0 parameter|1 member|2 constant|3 local> <type|err>: what the mutability pass records
            "declared" => {
                let vt = if w[2] == "err" { Err(penne::alpha::error::Poison::Poisoned) } else { Ok(P { s: w[2].as_bytes(), i: 0 }.cty()) };
                match penne::alpha::analyzer::verif_mutability_hooks::recorded_mutability(w[1].parse().unwrap(), vt) {
                    Some(true) => "mutable".to_string(),
                    Some(false) => "immutable".to_string(),
                    None => "none".to_string(),
                }
            }
            // align <structural type> <member type>*
            "align" => {
                let st = P { s: w[1].as_bytes(), i: 0 }.cty();
                let ms: Vec<CVT> = w[2..].iter().map(|x| P { s: x.as_bytes(), i: 0 }.cty()).collect();
                match h::align_struct(ms, st) {
                    Ok(t) => format!("ok {}", cwire(&t)),
                    Err(Some(Error::WordSizeMismatch { inferred_size_in_bits, declared_size_in_bits, .. })) =>
                        format!("err380:{}:{}", inferred_size_in_bits, declared_size_in_bits),
                    Err(Some(e)) => format!("err{}", e.code()),
                    Err(None) => "poisoned".to_string(),
                }
            }
            o => panic!("unknown request {o}"),
        });
        match r {
            Ok(s) => println!("{}", s),
            Err(_) => println!("PANIC"),
        }
    }
}

pub fn run_containers() {
    use penne::alpha::scoper::verif_container_hooks as h;
    fn parse(c: &str) -> h::ContainerState {
        let f: Vec<&str> = c.split(':').collect();
        let mask = u32::from_str_radix(f[1], 16).unwrap();
        h::ContainerState {
            id: f[0].parse().unwrap(),
            contained_ids: (0..32).filter(|i| mask & (1 << i) != 0).collect(),
            is_structure: f[2] == "1",
            depth: match f[3] { "n" => None, "p" => Some(Err(())), d => Some(Ok(d.parse().unwrap())) },
        }
    }
    fn show(cs: &[h::ContainerState]) -> String {
        let parts: Vec<String> = cs.iter().map(|c| {
            let mask = c.contained_ids.iter().fold(0u32, |m, i| m | (1 << i));
            let depth = match &c.depth { None => "n".to_string(), Some(Err(())) => "p".to_string(), Some(Ok(d)) => format!("{}", d) };
            format!("{}:{:x}:{}:{}", c.id, mask, if c.is_structure { 1 } else { 0 }, depth)
        }).collect();
        parts.join(" ")
    }
    let stdin = std::io::stdin();
    for line in stdin.lock().lines() {
        let line = line.unwrap();
        let w: Vec<String> = line.split(' ').filter(|x| !x.is_empty()).map(|x| x.to_string()).collect();
        let r = std::panic::catch_unwind(move || match w[0].as_str() {
            "step" => {
                let cs: Vec<h::ContainerState> = w[4..].iter().map(|c| parse(c)).collect();
                let ty = P { s: w[3].as_bytes(), i: 0 }.cty();
                let (res, out) = h::container_step(&cs, w[1].parse().unwrap(), w[2] == "1", ty.clone());
                let res = match res {
                    Ok(t) => format!("ok{}", if t == ty { 1 } else { 0 }),
                    Err(Some(e)) => format!("err{}", e.code()),
                    Err(None) => "poisoned".to_string(),
                };
                format!("{} | {}", res, show(&out))
            }
            "depths" => {
                let cs: Vec<h::ContainerState> = w[1..].iter().map(|c| parse(c)).collect();
                show(&h::container_depths(&cs))
            }
            // use <name> <ctx id|-> <layer>/<layer>/.. <containers..>   layer := name:id,name:id | -
            "use" => {
                let cs: Vec<h::ContainerState> = w[4..].iter().map(|c| parse(c)).collect();
                let layers: Vec<Vec<(String, u32)>> = w[3].split('/').map(|l| {
                    if l == "-" { Vec::new() } else {
                        l.split(',').map(|e| { let f: Vec<&str> = e.split(':').collect(); (format!("n{}", f[0]), f[1].parse().unwrap()) }).collect()
                    }
                }).collect();
                let ctx = if w[2] == "-" { None } else { Some(w[2].parse().unwrap()) };
                let (res, out) = h::constant_use(&cs, &layers, ctx, &format!("n{}", w[1]));
                let res = match res {
                    Ok(id) => format!("ok{}", id),
                    Err(Some(e)) => format!("err{}", e.code()),
                    Err(None) => "poisoned".to_string(),
                };
                format!("{} | {}", res, show(&out))
            }
            // declare <kind 0..5> <name> <next id> <containers name:id:s,..|-> <layers name:id,../..> <functions name:id,..|->
            "declare" => {
                let pairs = |t: &str| -> Vec<(String, u32)> {
                    if t == "-" { Vec::new() } else {
                        t.split(',').map(|e| { let f: Vec<&str> = e.split(':').collect(); (format!("n{}", f[0]), f[1].parse().unwrap()) }).collect()
                    }
                };
                let cs: Vec<(String, u32, bool)> = if w[4] == "-" { Vec::new() } else {
                    w[4].split(',').map(|e| { let f: Vec<&str> = e.split(':').collect(); (format!("n{}", f[0]), f[1].parse().unwrap(), f[2] == "1") }).collect()
                };
                let layers: Vec<Vec<(String, u32)>> = w[5].split('/').map(|l| pairs(l)).collect();
                let (res, dump) = h::declare_step(&cs, &layers, &pairs(&w[6]), w[3].parse().unwrap(), w[1].parse().unwrap(), &format!("n{}", w[2]));
                let res = match res { Ok(id) => format!("ok{}", id), Err(e) => format!("err{}", e.code()) };
                format!("{} | {}", res, dump)
            }
            o => panic!("unknown request {o}"),
        });
        match r {
            Ok(s) => println!("{}", s),
            Err(_) => println!("PANIC"),
        }
    }
}

trait Show { fn show(&self) -> String; }
impl Show for bool { fn show(&self) -> String { format!("{}", self) } }
impl Show for usize { fn show(&self) -> String { format!("{}", self) } }
impl Show for i128 { fn show(&self) -> String { format!("{}", self) } }
impl Show for u128 { fn show(&self) -> String { format!("{}", self) } }
impl Show for Option<usize> { fn show(&self) -> String { match self { Some(x) => format!("some {}", x), None => "none".to_string() } } }
fn show<T: Show>(x: T) -> String { x.show() }

pub fn run(_args: &[String]) {
    let stdin = std::io::stdin();
    for line in stdin.lock().lines() {
        let line = line.unwrap();
        let mut it = line.split(' ');
        let f = it.next().unwrap();
        let a = { let s = it.next().unwrap(); P { s: s.as_bytes(), i: 0 }.ty() };
        let b = it.next().map(|s| P { s: s.as_bytes(), i: 0 }.ty());
        let r = match f {
@UNARY@
@BINARY@
            other => panic!("unknown function {other}"),
        };
        println!("{}", r);
    }
}
'''
