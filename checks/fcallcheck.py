"""C08, copy clauses (E531-E533) of src/alpha/analyzer/function_calls.rs: "whole arrays, views and structs cannot be copied
by assignment"; they may only be handed to a function as an immediate argument.

The pass threads one flag, `is_immediate_function_argument`.  Every arm of `Expression::analyze` / `Statement::analyze` is
executed from MIR on its own, with opaque children; the analysis of a child is replaced by a stub that obeys the
*invariant* the clauses below prove for every arm (assume-guarantee, so the argument is an induction over the tree):

  INV-E   analysing an expression never raises the flag: exit flag implies entry flag;
  INV-S   analysing a statement leaves the flag cleared.

Clauses per arm:
  guarantee      the arm itself satisfies INV-E / INV-S, whatever its children do within the invariant
                 (a call expression therefore cannot leave the flag set for what follows it);
  no-raise       a child is analysed with the flag set only if it is an argument of a call or the arm itself was entered
                 with the flag set (wrappers pass it through, nothing else creates it);
  statement      every expression directly under a statement is analysed with the flag cleared, except call arguments;
  arguments      every argument of a call (expression or statement) is analysed with the flag set;
  copy           the Deref arm: a whole array / endless array is E531, an array view / slice pointer / array-like E532, a
                 struct E533 - iff the flag is cleared; with the flag set, and for every other type, nothing changes.
"""
import os
import re
import time
import z3

from common import log, Inconclusive
import replay
from mirsym import (Executor, State, ValRef, PlaceRef, Opaque, EnumV, BoxV, BoxPtr, Agg, Model, Unsupported, PathAbort,
                    bv, zand, zor, znot, zite)
import mutcheck
from mutcheck import EXPR_ANALYZE, STMT_ANALYZE, leftovers

CLASSES = {'Array': ('array', 531), 'EndlessArray': ('endless', 531), 'Slice': ('slice', 532), 'SlicePointer': ('slicepointer', 532),
           'Arraylike': ('arraylike', 532), 'Struct': ('struct', 533)}


def native(lines):
    replay.write_generated({})
    binary, _ = replay.build()
    rc, out, err = replay.run(binary, ['fcall-eval'], stdin='\n'.join(lines) + '\n')
    if rc != 0:
        raise Inconclusive('native function-call pass evaluation failed: ' + err[-300:])
    return out.split('\n')[:len(lines)]


def fc_impl(dump, self_suffix):
    hits = [n for n in dump.function_names() if re.search(r'function_calls\.rs:\d+:\d+: \d+:\d+>::analyze$', n)
            and dump.get(n).params and dump.get(n).params[0][1].endswith(self_suffix)]
    if len(hits) != 1:
        raise Inconclusive('function_calls: analyze for %s not found in the MIR dump' % self_suffix)
    return dump.get(hits[0])


def run(C):
    """C: a mutcheck.Ctx (dump, defs, query bookkeeping).  Appends queries / pending / unconfirmed to it."""
    dump, defs = C.dump, C.defs
    adef = defs.find_struct('alpha::analyzer::function_calls::Analyzer')
    if adef is None or 'is_immediate_function_argument' not in [f for f, _ in adef.fields]:
        raise Inconclusive('function_calls::Analyzer has no field is_immediate_function_argument')
    af = [f for f, _ in adef.fields]
    fidx = af.index('is_immediate_function_argument')
    xdef = defs.find_enum('alpha::common::Expression')
    sdef = defs.find_enum('alpha::common::Statement')
    expr_fn, stmt_fn = fc_impl(dump, 'common::Expression'), fc_impl(dump, 'common::Statement')
    odef, rdef = defs.find_enum('Option'), defs.find_enum('Result')

    def executor():
        ex = Executor(dump, defs, loop_bound=C.K + 3)
        ex.abstract_types = {'String': 8, 'Location': 8}
        ex.vec_input_slots = 0
        ex.havoc_patterns = [r'(?:function_calls::)?Analyzer::use_function$', r'^(?:function_calls::)?analyze_builtin$',
                             (r'<(?:common::)?Expression as (?:\w+::)?Typed>::value_type$', 1, lambda b: b in ('Option', 'Result', 'ValueType', 'Poison')),
                             r'(?:common::)?Expression::location$']
        calls = []

        def child(kind):
            def handler(ex_, m, argv, guard, st, callee):
                a = argv[1]
                an = ex_.read_ref(st, a)
                entry = an.fields[fidx]
                ex_.fresh_n += 1
                if kind == 'expr':
                    exit_ = z3.Bool('childflag!%d' % ex_.fresh_n)
                    ex_.assume(z3.Implies(exit_, entry))          # INV-E of the child
                else:
                    exit_ = z3.BoolVal(False)                      # INV-S of the child
                fs = list(an.fields)
                fs[fidx] = exit_
                ex_.write_cell(st, a.cell, a.path, Agg(fs, an.tag))
                tags = leftovers(argv[0])
                calls.append((guard, entry, tags[0] if tags else '?', kind))
                return guard, Opaque('analysed!%d' % ex_.fresh_n)
            return handler
        ex.add_model(EXPR_ANALYZE, child('expr'), 'child expression analysis (stub obeying INV-E)')
        ex.add_model(STMT_ANALYZE, child('stmt'), 'child statement analysis (stub obeying INV-S)')
        # the stubs must win over the generic havoc list
        ex.models = ex.models[-2:] + ex.models[:-2]
        return ex, calls

    def analyzer(flag):
        return Agg([flag if f == 'is_immediate_function_argument' else Opaque('functions') for f in af], 'Analyzer')

    def plain_reference(ex, tag):
        """A symbolic reference without index steps (`a[i]` would bring an index expression, whose analysis is an arm of its
        own: the Element arm clears the flag and analyses the index; it is not part of these clauses)."""
        ref, R = C.fresh_reference(ex, tag)
        d_elem = C.sdef.variant_by_name('Element')[1]
        for s_ in R['steps']:
            nm = s_.discr.decl().name()
            ex.base_dom[nm] = frozenset(x for x in ex.base_dom.get(nm, frozenset()) if x != d_elem)
            ex.assume(s_.discr != bv(d_elem, 64))
        return ref

    def build(ex, ty, tag):
        t = ty.replace('alpha::common::', '').replace('common::', '').strip()
        if t == 'Box<Expression>':
            return BoxV(Opaque('in:expr:' + tag))
        if t == 'Expression':
            return Opaque('in:expr:' + tag)
        if t == 'Box<Statement>':
            return BoxV(Opaque('in:stmt:' + tag))
        if t == 'Option<Expression>':
            return EnumV(odef, bv(1, 64), {'None': (), 'Some': (Opaque('in:expr:' + tag),)})
        if t in ('Vec<Expression>', 'Vec<Statement>', 'Vec<MemberExpression>'):
            inner = t[4:-1]
            return Model('vec', items=Agg([build(ex, inner, tag + '[0]'), build(ex, inner, tag + '[1]'), None], 'vecitems'), len=bv(2, 64), cap=bv(2, 64))
        if t == 'Option<Else>':
            return EnumV(odef, bv(1, 64), {'None': (), 'Some': (build(ex, 'Else', tag),)})
        if t in ('Array', 'MemberExpression', 'Comparison', 'Block', 'Else'):
            sd = defs.find_struct('alpha::common::' + t)
            return Agg([build(ex, ft, '%s.%s' % (tag, f)) for f, ft in sd.fields], sd.name)
        if t == 'Reference':
            return plain_reference(ex, 'fc.' + tag)
        if t in ('Location', 'String'):
            return z3.BitVec('fc.%s' % tag, 8)
        for cand in ('alpha::common::' + t, ty):
            try:
                v = ex.fresh_value(cand, 'fc.' + tag, depth=1, expand=lambda b: b in ('Option', 'Result', 'ValueType', 'Poison', 'Identifier'))
            except (KeyError, Unsupported):
                continue
            if not isinstance(v, Opaque):
                return v
        return Opaque('other:' + tag)

    def decide(ex, name, formula, text, describe=None, tool=None):
        s = z3.SolverFor('QF_BV')
        s.add(*ex.assumptions)
        s.add(formula)
        t = time.time()
        r = s.check()
        dt = time.time() - t
        C.solver_s += dt
        if r == z3.unknown:
            raise Inconclusive('z3 answered unknown on %s' % name)
        q = {'name': name, 'result': str(r), 'seconds': round(dt, 3), 'statement': text}
        C.queries.append(q)
        if os.environ.get('VERIF_DEBUG'):
            log('  %s: %s %.2fs' % (name, r, dt))
        if r != z3.sat:
            return
        if describe is None:
            C.unconfirmed.append('%s has a counter-model and no native replay' % name)
            return
        line, want = describe(s.model())
        if tool == 'call-eval':
            import argcheck
            got = argcheck.native([line])[0]
        else:
            got = native([line])[0]
        q['counterexample'] = {'request': line, 'native': got, 'expected': want}
        if got == want:
            C.unconfirmed.append('counterexample of %s does not reproduce natively: %s -> %s' % (name, line, got))
            return
        C.pending.append((name, text, line, got))

    none = EnumV(odef, bv(0, 64), {'None': ()})
    for edef, fn, kind in ((xdef, expr_fn, 'Expression'), (sdef, stmt_fn, 'Statement')):
        for vname, d, fields in edef.variants:
            if not fields or vname == 'Poison' or (kind == 'Expression' and vname == 'Deref'):
                continue
            ex, calls = executor()
            f0 = z3.Bool('fc.entry.%s.%s' % (kind, vname))
            vals = tuple(none if (f in ('value_type', 'deref_type', 'element_type', 'return_type', 'builtin') and ft.strip().startswith('Option<'))
                         else build(ex, ft, '%s.%s' % (vname, f or i)) for i, (f, ft) in enumerate(fields))
            val = EnumV(edef, bv(d, 64), {vname: vals})
            st = State()
            st.mem[(0, 'analyzer')] = analyzer(f0)
            t1 = time.time()
            try:
                g, res = ex.call_function(fn, [val, PlaceRef((0, 'analyzer'))], z3.BoolVal(True), st)
            except (Unsupported, PathAbort) as e:
                raise Inconclusive('cannot encode the %s::%s arm of the function call pass: %s' % (kind, vname, e))
            C.exec_s += time.time() - t1
            exit_flag = st.mem[(0, 'analyzer')].fields[fidx]
            arm = 'copy:%s::%s' % (kind, vname)
            is_call = vname in ('FunctionCall', 'MethodCall')
            if kind == 'Expression':
                how = ('aftercall array', 'err531 0') if vname == 'FunctionCall' else None
                decide(ex, arm + ':guarantee', zand(g, exit_flag, znot(f0)),
                       'analysing a %s expression never raises the argument flag (INV-E), so nothing after it is mistaken for an argument' % vname,
                       describe=(lambda m, how=how: how) if how else None)
            else:
                decide(ex, arm + ':guarantee', zand(g, exit_flag), 'analysing a %s statement leaves the argument flag cleared (INV-S)' % vname)
            if is_call:
                # the verdict of use_function (E510-E513, decided by the call clause in argcheck.py) must reach the output:
                # a rejected call becomes Poison(Error(that very error)), an accepted call stays a call
                hvs = [hv for callee, hv in ex.havoc_log if callee.endswith('use_function')]
                if len(hvs) != 1 or not isinstance(hvs[0], EnumV) or 'Err' not in hvs[0].variants:
                    raise Inconclusive('the %s arm no longer asks use_function exactly once (%d)' % (vname, len(hvs)))
                hv = hvs[0]
                rejected = hv.discr == bv(1, 64)
                d_poison = edef.variant_by_name('Poison')[1]
                pv = res.variants.get('Poison') if isinstance(res, EnumV) else None
                pe = pv[0].variants.get('Error') if pv and isinstance(pv[0], EnumV) else None
                kept = z3.BoolVal(False)
                if pe is not None and pe[0] is hv.variants['Err'][0]:
                    kept = zand(res.discr == bv(d_poison, 64), pv[0].discr == bv(C.pdef.variant_by_name('Error')[1], 64))
                req = '%s 1 Pointer(Int32) 1 1 d Int32' % ('callx' if kind == 'Expression' else 'call')
                decide(ex, arm + ':error-kept', zand(g, rejected, znot(kept)),
                       'a call rejected by use_function (E510-E513) becomes Poison(Error(e)) with that very error: it is reported, not dropped',
                       describe=lambda m, req=req: (req, 'ArgumentMissingAddress'), tool='call-eval')
                decide(ex, arm + ':accepted-stays-call', zand(g, znot(rejected), res.discr != bv(d, 64)),
                       'a call accepted by use_function stays a call')
            for cg, entry, tag, ckind in calls:
                if ckind != 'expr':
                    continue
                is_arg = is_call and ':%s.arguments' % vname in tag
                if is_arg:
                    decide(ex, '%s:argument[%s]' % (arm, tag.split(':')[-1]), zand(cg, znot(entry)),
                           'every argument of a call is analysed as an immediate function argument',
                           describe=lambda m: ('arg array', 'ok 0'))
                elif kind == 'Statement':
                    decide(ex, '%s:statement-child[%s]' % (arm, tag.split(':')[-1]), zand(cg, entry),
                           'an expression directly under a statement is not an immediate function argument',
                           describe=(lambda m: ('assign array', 'err531 0')) if vname == 'Assignment' else None)
                else:
                    decide(ex, '%s:no-raise[%s]' % (arm, tag.split(':')[-1]), zand(cg, entry, znot(f0)),
                           'a child is analysed as an immediate argument only if the expression itself is one')
            C.finish_ex(ex)

    # ---- the Deref arm
    ex, calls = executor()
    f0 = z3.Bool('fc.entry.deref')
    vt = 'alpha::value_type::ValueType<common::Identifier>'
    ex.abstract_types['Identifier'] = 16
    vtype = ex.fresh_value(vt, 'fc.dtype', depth=1)
    has_t, ok_t = z3.Bool('fc.has_type'), z3.Bool('fc.type_ok')
    pdef = C.pdef
    dtype = EnumV(odef, zite(has_t, bv(1, 64), bv(0, 64)),
                  {'None': (), 'Some': (EnumV(rdef, zite(ok_t, bv(0, 64), bv(1, 64)),
                                               {'Ok': (vtype,), 'Err': (EnumV(pdef, bv(pdef.variant_by_name('Poisoned')[1], 64), {'Poisoned': ()}),)}),)})
    del ex.abstract_types['Identifier']
    names = [n for n, _ in xdef.variant_by_name('Deref')[2]]
    fs = [None] * len(names)
    fs[names.index('reference')] = plain_reference(ex, 'fc.dref')
    fs[names.index('deref_type')] = dtype
    val = EnumV(xdef, bv(xdef.variant_by_name('Deref')[1], 64), {'Deref': tuple(fs)})
    st = State()
    st.mem[(0, 'analyzer')] = analyzer(f0)
    try:
        g, res = ex.call_function(expr_fn, [val, PlaceRef((0, 'analyzer'))], z3.BoolVal(True), st)
    except (Unsupported, PathAbort) as e:
        raise Inconclusive('cannot encode the Deref arm of the function call pass: %s' % e)
    out_t = res.variants['Deref'][names.index('deref_type')] if 'Deref' in res.variants else None
    if out_t is None:
        raise Inconclusive('the Deref arm does not return a Deref')
    is_deref = res.discr == bv(xdef.variant_by_name('Deref')[1], 64)
    edef = C.edef
    VT = lambda *ns: zor(*[vtype.discr == bv(vtype.edef.variant_by_name(n)[1], 64) for n in ns])
    typed = zand(has_t, ok_t)
    so = out_t.variants['Some'][0] if 'Some' in out_t.variants else None
    perr = so.variants['Err'][0] if so is not None and 'Err' in so.variants else None
    e_ = perr.variants['Error'][0] if perr is not None and 'Error' in perr.variants else None

    def rejected_with(variant):
        if e_ is None:
            return z3.BoolVal(False)
        return zand(out_t.discr == bv(1, 64), so.discr == bv(1, 64), perr.discr == bv(pdef.variant_by_name('Error')[1], 64),
                    e_.discr == bv(edef.variant_by_name(variant)[1], 64))
    unchanged = zand(out_t.discr == dtype.discr, z3.Implies(has_t, so.discr == dtype.variants['Some'][0].discr) if so is not None else z3.BoolVal(True),
                     z3.Implies(typed, so.variants['Ok'][0].discr == vtype.discr) if so is not None and 'Ok' in so.variants else z3.BoolVal(True))
    expected = zite(zand(typed, znot(f0), VT('Array', 'EndlessArray')), rejected_with('CannotCopyArray'),
                    zite(zand(typed, znot(f0), VT('Slice', 'SlicePointer', 'Arraylike')), rejected_with('CannotCopySlice'),
                         zite(zand(typed, znot(f0), VT('Struct')), rejected_with('CannotCopyStruct'), unchanged)))

    def d_copy(m):
        fl = z3.is_true(m.eval(f0, model_completion=True))
        if not (z3.is_true(m.eval(has_t, model_completion=True)) and z3.is_true(m.eval(ok_t, model_completion=True))):
            return 'copy %d none' % (1 if fl else 0), 'ok %d' % (1 if fl else 0)
        v = vtype.edef.variant_by_discr(m.eval(vtype.discr, model_completion=True).as_long())[1]
        cls, code = CLASSES.get(v, ('int' if v != 'Pointer' else 'pointer', None))
        want = ('err%d' % code) if (code and not fl) else 'ok'
        return 'copy %d %s' % (1 if fl else 0, cls), '%s %d' % (want, 1 if fl else 0)
    text = ('a whole array or endless array is E531, an array view, slice pointer or array-like E532, a struct E533, iff it is not an '
            'immediate function argument; otherwise, and for every other type, the expression is unchanged')
    exit_flag = st.mem[(0, 'analyzer')].fields[fidx]
    decide(ex, 'copy:Expression::Deref:verdict', zand(g, znot(zand(is_deref, expected))), text, describe=d_copy)
    decide(ex, 'copy:Expression::Deref:guarantee', zand(g, exit_flag, znot(f0)), 'analysing a Deref never raises the argument flag (INV-E)', describe=d_copy)
    for nm, f in (('copy:witness-rejected', zand(g, typed, znot(f0), VT('Struct'))), ('copy:witness-argument', zand(g, typed, f0, VT('Array')))):
        s = z3.SolverFor('QF_BV')
        s.add(*ex.assumptions)
        s.add(f)
        r = s.check()
        C.queries.append({'name': nm, 'result': str(r), 'seconds': 0.0, 'statement': 'witness', 'expected': 'sat'})
        if r != z3.sat:
            C.unconfirmed.append('vacuity witness %s is unsatisfiable' % nm)
    C.finish_ex(ex)

    # native validation of the Deref verdict on every class x flag
    reqs = [('copy %d %s' % (fl, cls)) for fl in (0, 1) for cls in ['array', 'endless', 'slice', 'slicepointer', 'arraylike', 'struct', 'int', 'pointer', 'none']]
    outs = native(reqs + ['arg array', 'aftercall array', 'assign array', 'assign int'])
    want = []
    for r in reqs:
        _c, fl, cls = r.split(' ')
        code = {'array': 531, 'endless': 531, 'slice': 532, 'slicepointer': 532, 'arraylike': 532, 'struct': 533}.get(cls)
        want.append('%s %s' % (('err%d' % code) if (code and fl == '0') else 'ok', fl))
    want += ['ok 0', 'err531 0', 'err531 0', 'ok 0']
    if outs != want:
        bad = [(a, b, c) for a, b, c in zip(reqs + ['arg array', 'aftercall array', 'assign array', 'assign int'], outs, want) if b != c]
        # the native pass disagrees with the documented table: that is what the clauses above report with their own replays;
        # without a pending violation it is an unexplained disagreement
        if not C.pending:
            C.unconfirmed.append('native function-call pass disagrees with the documented table: %r' % bad[:3])
    C.used += len(outs)
