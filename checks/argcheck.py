"""Argument / parameter clause of C07 and C08 (E510-E513): `function_calls::Analyzer::use_function` with
`can_hint_missing_address`, symbolically executed from MIR as ONE call of a function with up to K parameters by up to K
arguments (K = 3 quick, 5 thorough): symbolic counts, symbolic parameter types and argument types (nesting depth <= 2, thorough 3), symbolic expression kinds.

Stated from the caller's side (the property text), not from the code:
  count        fewer arguments than parameters is TooFewArguments (E510), more is TooManyArguments (E511);
  identical    a call is accepted only if every argument whose type is known has the identical type as its (error-free)
               parameter - no coercion, no implicit address;
  accepted     a call whose arguments all have the type of their parameter is accepted;
  missing-&    the first mismatching argument is reported as a missing address (E513) iff it is a plain variable/reference
               expression whose type T meets a parameter of type &T, or whose array type would coerce into the parameter
               when its address is taken; every other mismatch is ArgumentTypeMismatch (E512);
  no-panic     no panic when the called function is declared.
Consequence for C08: an argument for a pointer parameter is never accepted without the pointer type, i.e. without `&`.
"""
import time
import z3

from common import log, Inconclusive
import replay
import vtlib
import vtref
import mirmodels
from mirsym import (Executor, State, ValRef, PlaceRef, Opaque, EnumV, BoxV, Agg, Model, SliceRef, Unsupported, PathAbort,
                    bv, zand, zor, znot, zite)

VT = 'alpha::value_type::ValueType<common::Identifier>'


def native(lines):
    replay.write_generated({})
    binary, _ = replay.build()
    rc, out, err = replay.run(binary, ['call-eval'], stdin='\n'.join(lines) + '\n', timeout=300)
    if rc != 0:
        raise Inconclusive('native call evaluation failed: ' + err[-300:])
    res = out.strip().split('\n')
    if len(res) != len(lines):
        raise Inconclusive('native call evaluation: %d answers for %d requests' % (len(res), len(lines)))
    return res


def run(S, tier):
    K = 3 if tier == 'quick' else 5
    depth = 2 if tier == 'quick' else 3
    dump, defs = S.dump, S.defs
    fn = [n for n in dump.function_names() if n.endswith('::use_function') and 'function_calls' in n]
    if len(fn) != 1:
        raise Inconclusive('function_calls::Analyzer::use_function not found in the MIR dump (%d candidates)' % len(fn))
    use_fn = dump.get(fn[0])
    adef = defs.find_struct('alpha::analyzer::function_calls::Analyzer')
    fdef = defs.find_struct('alpha::analyzer::function_calls::Function')
    pdef_ = defs.find_struct('alpha::common::Parameter')
    xdef = defs.find_enum('alpha::common::Expression')
    edef = defs.find_enum('alpha::error::Error')
    poison = defs.find_enum('alpha::error::Poison')
    odef, rdef = defs.find_enum('Option'), defs.find_enum('Result')
    if None in (adef, fdef, pdef_, xdef, edef, poison):
        raise Inconclusive('function_calls: Analyzer / Function / Parameter definitions not found')
    if sorted(f for f, _ in fdef.fields) != ['identifier', 'parameters'] or sorted(f for f, _ in pdef_.fields) != ['location_of_type', 'name', 'value_type']:
        raise Inconclusive('function_calls::Function or common::Parameter changed shape')

    ex = Executor(dump, defs, loop_bound=K + 2)
    ex.abstract_types = {'String': 8, 'Location': 8, 'Identifier': 16}
    ex.vec_input_slots = 0
    ex.havoc_patterns = [r'(?:common::)?Expression::location$']
    P = [ex.fresh_value(VT, 'call.P%d' % i, depth=depth) for i in range(K)]
    A = [ex.fresh_value(VT, 'call.A%d' % i, depth=depth) for i in range(K)]
    del ex.abstract_types['Identifier']
    poisoned = lambda: EnumV(poison, bv(poison.variant_by_name('Poisoned')[1], 64), {'Poisoned': ()})
    p_ok = [z3.Bool('call.p_ok%d' % i) for i in range(K)]
    n_ok = [z3.Bool('call.name_ok%d' % i) for i in range(K)]
    a_has = [z3.Bool('call.a_has%d' % i) for i in range(K)]
    a_ok = [z3.Bool('call.a_ok%d' % i) for i in range(K)]
    is_deref = [z3.Bool('call.a_deref%d' % i) for i in range(K)]
    d_deref = xdef.variant_by_name('Deref')[1]
    d_other = xdef.variant_by_name('Parenthesized')[1]

    def result(ok, good):
        return EnumV(rdef, zite(ok, bv(0, 64), bv(1, 64)), {'Ok': (good,), 'Err': (poisoned(),)})
    params = []
    for i in range(K):
        ident = ex.fresh_value('alpha::common::Identifier', 'call.pname%d' % i, depth=1)
        vals = {'name': result(n_ok[i], ident), 'value_type': result(p_ok[i], P[i]), 'location_of_type': z3.BitVec('call.ploc%d' % i, 8)}
        params.append(Agg([vals[f] for f, _ in pdef_.fields], 'Parameter'))
    np_, na_ = z3.BitVec('call.nparams', 64), z3.BitVec('call.nargs', 64)
    ex.assume(z3.ULE(np_, bv(K, 64)))
    ex.assume(z3.ULE(na_, bv(K, 64)))
    ex.var_bounds['call.nparams'] = (0, K)
    ex.var_bounds['call.nargs'] = (0, K)
    fvals = {'identifier': ex.fresh_value('alpha::common::Identifier', 'call.fname', depth=1),
             'parameters': Model('vec', items=Agg(params + [None], 'vecitems'), len=np_, cap=bv(K, 64))}
    function = Agg([fvals[f] for f, _ in fdef.fields], 'Function')
    key = z3.BitVec('call.key', 32)
    hmap = mirmodels.new_hmap(0, [Agg([z3.BoolVal(True), key, function], 'hslot')])
    analyzer = Agg([hmap if f == 'functions' else z3.Bool('call.flag') for f, _ in adef.fields], 'Analyzer')
    ident = ex.fresh_value('alpha::common::Identifier', 'call.callee', depth=1)
    ridx = [f for f, _ in defs.find_struct('alpha::common::Identifier').fields].index('resolution_id')
    ex.assume(ident.fields[ridx] == key)          # the called function is declared (the scoper resolved the name)
    args = [EnumV(xdef, zite(is_deref[i], bv(d_deref, 64), bv(d_other, 64)), {}) for i in range(K)]
    types = [EnumV(odef, zite(a_has[i], bv(1, 64), bv(0, 64)), {'None': (), 'Some': (result(a_ok[i], A[i]),)}) for i in range(K)]

    def m_value_type(ex_, m, argv, guard, st, callee):
        v = mirmodels.deref_any(ex_, st, argv[0])
        for i, a in enumerate(args):
            if v is a:
                return guard, types[i]
        raise Unsupported('value_type of an expression that is not one of the arguments')
    ex.add_model(r'<(?:common::)?Expression as (?:\w+::)*Typed>::value_type$', m_value_type, 'type of argument i (symbolic, from the harness)')
    ex.models = ex.models[-1:] + ex.models[:-1]
    st = State()
    n_ob = len(ex.obligations)
    t0 = time.time()
    try:
        g, res = ex.call_function(use_fn, [ValRef(analyzer), ValRef(ident), SliceRef(args, bv(0, 64), na_)], z3.BoolVal(True), st)
    except (Unsupported, PathAbort, KeyError) as e:
        raise Inconclusive('cannot encode function_calls::use_function: %s' % e)
    S.exec_s += time.time() - t0
    S.functions += [use_fn.name, 'can_hint_missing_address']
    obs = ex.obligations[n_ob:]
    panics = [og for k, og, msg in obs if k != 'bound']
    bounds = [og for k, og, msg in obs if k == 'bound']

    TP, TA = [vtref.T(x) for x in P], [vtref.T(x) for x in A]
    accepted = zand(g, res.discr == bv(0, 64))
    err = res.variants['Err'][0] if 'Err' in res.variants else None

    def rejected(variant):
        if err is None:
            return z3.BoolVal(False)
        return zand(g, res.discr == bv(1, 64), err.discr == bv(edef.variant_by_name(variant)[1], 64))
    inr = [z3.ULT(bv(i, 64), na_) for i in range(K)]
    known = [zand(inr[i], p_ok[i], n_ok[i], a_has[i], a_ok[i]) for i in range(K)]
    same = [vtref.same(TP[i], TA[i]) for i in range(K)]
    mismatch = [zand(known[i], znot(same[i])) for i in range(K)]
    first = [zand(mismatch[i], *[znot(mismatch[j]) for j in range(i)]) for i in range(K)]

    def hint(i):
        child = TP[i].child()
        ptr = zand(TP[i].is_('Pointer'), vtref.same(child, TA[i])) if child is not None else z3.BoolVal(False)
        return zand(is_deref[i], zor(ptr, vtref.can_coerce_address_into(TA[i], TP[i])))
    kinds = S.kinds

    def describe(m):
        ev = lambda t: z3.is_true(m.eval(t, model_completion=True))
        npv, nav = m.eval(np_, model_completion=True).as_long(), m.eval(na_, model_completion=True).as_long()
        w = ['call', str(npv)]
        for i in range(npv):
            w += [vtlib.wire(vtlib.from_model(m, P[i], kinds)) if ev(p_ok[i]) else 'poison', '1' if ev(n_ok[i]) else '0']
        w.append(str(nav))
        for i in range(nav):
            t = 'none' if not ev(a_has[i]) else ('poison' if not ev(a_ok[i]) else vtlib.wire(vtlib.from_model(m, A[i], kinds)))
            w += ['d' if ev(is_deref[i]) else 'o', t]
        if ev(z3.ULT(na_, np_)):
            want = 'TooFewArguments'
        elif ev(z3.UGT(na_, np_)):
            want = 'TooManyArguments'
        else:
            want = 'ok'
            for i in range(nav):
                if ev(first[i]):
                    want = 'ArgumentMissingAddress' if ev(hint(i)) else 'ArgumentTypeMismatch'
        return ' '.join(w), want

    def ask(name, formula, text, kind='claim'):
        s = z3.Solver()
        s.add(*ex.assumptions)
        s.add(formula)
        t = time.time()
        r = s.check()
        dt = time.time() - t
        S.solver_s += dt
        if r == z3.unknown:
            raise Inconclusive('z3 answered unknown on %s' % name)
        q = {'name': name, 'result': str(r), 'seconds': round(dt, 3), 'statement': text}
        if kind == 'witness':
            q['expected'] = 'sat'
            S.queries.append(q)
            if r != z3.sat:
                raise Inconclusive('vacuity witness %s is unsatisfiable' % name)
            return
        S.queries.append(q)
        if r != z3.sat:
            return
        m = s.model()
        line, want = describe(m)
        got = native([line])[0]
        q['counterexample'] = {'request': line, 'native': got, 'rule': want}
        if got == want:
            raise Inconclusive('counterexample for %s does not reproduce natively: %s -> %s (as the rule prescribes)' % (name, line, got))
        S.violations.append({'query': name, 'statement': text, 'a': ('Void',), 'b': None, 'functions': [], 'model': m,
                             'native_request': line, 'native_answer': got, 'confirmed': True, 'key_extra': line})

    eq_n = na_ == np_
    ask('call:bound', zor(*bounds) if bounds else z3.BoolVal(False), 'the Vec / HashMap models are large enough for the stated bound', 'claim') if bounds else None
    ask('call:count-few', zand(z3.ULT(na_, np_), znot(rejected('TooFewArguments'))), 'fewer arguments than parameters is E510')
    ask('call:count-many', zand(z3.UGT(na_, np_), znot(rejected('TooManyArguments'))), 'more arguments than parameters is E511')
    ask('call:identical', zand(accepted, znot(zand(eq_n, *[z3.Implies(known[i], same[i]) for i in range(K)]))),
        'a call is accepted only if the counts agree and every argument of known type has the identical type as its parameter (no coercion, no implicit address)')
    ask('call:accepted', zand(eq_n, *[znot(mismatch[i]) for i in range(K)], znot(accepted)),
        'a call whose arguments all have the type of their parameter is accepted')
    for i in range(K):
        ask('call:missing-address[%d]' % i, zand(eq_n, first[i], hint(i), znot(rejected('ArgumentMissingAddress'))),
            'a variable of type T handed to a parameter of type &T (or an array whose address would coerce) is E513: the address must be written')
        ask('call:mismatch[%d]' % i, zand(eq_n, first[i], znot(hint(i)), znot(rejected('ArgumentTypeMismatch'))),
            'every other mismatch between argument and parameter type is E512')
    ask('call:pointer-needs-address', zand(accepted, zor(*[zand(known[i], TP[i].is_('Pointer'), znot(TA[i].is_('Pointer'))) for i in range(K)])),
        'an argument for a pointer parameter is never accepted unless it has the pointer type, i.e. unless the caller wrote `&`')
    ask('call:no-panic', zor(znot(g), *panics), 'use_function neither panics nor fails to return when the called function is declared')
    ask('call:witness-accepted', zand(accepted, na_ == bv(K, 64), *known), 'witness', 'witness')
    ask('call:witness-missing-address', zand(eq_n, first[K - 1], hint(K - 1)), 'witness', 'witness')
    ask('call:witness-coercible-array', zand(eq_n, first[0], is_deref[0], TA[0].is_('Array'), TP[0].is_('SlicePointer'), hint(0)), 'witness', 'witness')

    # ---- native validation of the rule and the encoding on concrete calls
    import random
    from common import seed
    rng = random.Random(seed() * 17 + 3)
    lv = vtlib.corpus(kinds, 2, rng, 40)
    pool = [t for t in lv[0] + lv[1] + rng.sample(lv[2], min(len(lv[2]), 30)) if not any(f is None for f in t[1:])]
    lines, wants = [], []
    for _ in range(120 if tier == 'quick' else 600):
        npv, nav = rng.randint(0, K), rng.randint(0, K)
        if rng.random() < 0.7:
            nav = npv
        pt = [rng.choice(pool) for _ in range(npv)]
        at = []
        for i in range(nav):
            r = rng.random()
            if i < npv and r < 0.45:
                at.append(pt[i])
            elif i < npv and r < 0.6:
                at.append(('Pointer', pt[i])) if rng.random() < 0.5 else at.append(pt[i][1] if pt[i][0] == 'Pointer' else rng.choice(pool))
            else:
                at.append(rng.choice(pool))
        pairs = [(np_, bv(npv, 64)), (na_, bv(nav, 64))]
        w = ['call', str(npv)]
        try:
            for i in range(npv):
                vtlib.assignment(P[i], pt[i], kinds, pairs)
                pairs += [(p_ok[i], z3.BoolVal(True)), (n_ok[i], z3.BoolVal(True))]
                w += [vtlib.wire(pt[i]), '1']
            w.append(str(nav))
            for i in range(nav):
                d = rng.random() < 0.6
                vtlib.assignment(A[i], at[i], kinds, pairs)
                pairs += [(a_has[i], z3.BoolVal(True)), (a_ok[i], z3.BoolVal(True)), (is_deref[i], z3.BoolVal(d))]
                w += ['d' if d else 'o', vtlib.wire(at[i])]
        except Exception:
            continue
        lines.append(' '.join(w))
        wants.append(pairs)
    outs = native(lines)
    bad = []
    code = {'ok': accepted, 'TooFewArguments': rejected('TooFewArguments'), 'TooManyArguments': rejected('TooManyArguments'),
            'ArgumentMissingAddress': rejected('ArgumentMissingAddress'), 'ArgumentTypeMismatch': rejected('ArgumentTypeMismatch')}
    s2 = z3.Solver()
    s2.add(*ex.assumptions)
    for line, pairs, got in zip(lines, wants, outs):
        if got not in code:
            bad.append((line, 'encoding?', got))
            continue
        s2.push()
        for var, val in pairs:
            s2.add(var == val)
        if s2.check() == z3.sat:
            if not z3.is_true(s2.model().eval(code[got], model_completion=True)):
                bad.append((line, 'encoding disagrees', got))
        s2.pop()
    if bad:
        raise Inconclusive('use_function encoding disagrees with the native pass on %d of %d calls, e.g. %r' % (len(bad), len(lines), bad[:2]))
    S.validated += len(lines)
    for k, v in ex.used_models.items():
        S.ex.used_models[k] += v
    S.ex.stats['blocks'] += ex.stats['blocks']
