"""Reference model of Penne's type algebra, written from the documentation (docs/features.md,
docs/errors.md E350-E356, README) and independent of src/alpha/value_type.rs: it shares no code
with it and is expressed over constructor names, not over the MIR.

A symbolic type is the EnumV produced by Executor.fresh_value('ValueType<I>', ...); the functions
below return z3 Bool terms over the same variables, so that `impl(a, b) != ref(a, b)` can be handed
to the solver.
"""
import z3

from mirsym import EnumV, BoxV, bv, zand, zor, znot

TRUE, FALSE = z3.BoolVal(True), z3.BoolVal(False)

PRIMS = ['Void', 'Int8', 'Int16', 'Int32', 'Int64', 'Int128', 'Uint8', 'Uint16', 'Uint32', 'Uint64',
         'Uint128', 'Usize', 'Char8', 'Bool']
SIGNED = ['Int8', 'Int16', 'Int32', 'Int64', 'Int128']
UNSIGNED_FIXED = ['Uint8', 'Uint16', 'Uint32', 'Uint64', 'Uint128']
INTEGRAL = SIGNED + UNSIGNED_FIXED + ['Usize']
BOXED = ['Array', 'ArrayWithNamedLength', 'Slice', 'SlicePointer', 'EndlessArray', 'Arraylike', 'Pointer', 'View']


class T:
    """Convenience wrapper around a symbolic ValueType."""

    def __init__(self, v):
        assert isinstance(v, EnumV), v
        self.v = v
        self.edef = v.edef

    def is_(self, *names):
        return zor(*[self.v.discr == bv(self.edef.variant_by_name(n)[1], 64) for n in names])

    def has(self, name):
        return name in self.v.variants

    def child(self):
        """The boxed component (shared slot), or None below the materialised depth."""
        for n in BOXED:
            f = self.v.variants.get(n)
            if f is not None:
                c = f[0].content if isinstance(f[0], BoxV) else None
                return T(c) if c is not None else None
        return None

    def field(self, variant, idx):
        return self.v.variants[variant][idx]


def memo(fn):
    cache = {}

    def w(*args):
        key = tuple(id(a.v) if isinstance(a, T) else a for a in args)
        if key not in cache:
            cache[key] = (fn(*args), args)
        return cache[key][0]
    return w


def opt_eq(a, b):
    """Equality of two symbolic Option<I> values."""
    sa, sb = a.discr == bv(1, 64), b.discr == bv(1, 64)
    return zand(sa == sb, z3.Implies(sa, a.variants['Some'][0] == b.variants['Some'][0]))


@memo
def same(a, b):
    """Identical types: same constructor, same lengths/names, identical components."""
    cs = [a.v.discr == b.v.discr]
    if a.has('Array') and b.has('Array'):
        cs.append(z3.Implies(a.is_('Array'), a.field('Array', 1) == b.field('Array', 1)))
        cs.append(z3.Implies(a.is_('ArrayWithNamedLength'),
                             a.field('ArrayWithNamedLength', 1) == b.field('ArrayWithNamedLength', 1)))
    cs.append(z3.Implies(a.is_('Struct'), a.field('Struct', 0) == b.field('Struct', 0)))
    cs.append(z3.Implies(a.is_('Word'), zand(a.field('Word', 0) == b.field('Word', 0),
                                               a.field('Word', 1) == b.field('Word', 1))))
    cs.append(z3.Implies(a.is_('UnresolvedStructOrWord'),
                         opt_eq(a.field('UnresolvedStructOrWord', 0), b.field('UnresolvedStructOrWord', 0))))
    ca, cb = a.child(), b.child()
    if ca is not None and cb is not None:
        cs.append(z3.Implies(a.is_(*BOXED), same(ca, cb)))
    return zand(*cs)


@memo
def equals(a, b):
    """Type identity as the type checker sees it: `char8` and `u8` are interchangeable wherever a
    type is compared through its components; names and lengths must match exactly."""
    alias = zor(zand(a.is_('Char8'), b.is_('Uint8')), zand(a.is_('Uint8'), b.is_('Char8')))
    ca, cb = a.child(), b.child()
    cs = [a.v.discr == b.v.discr]
    if a.has('Array') and b.has('Array'):
        cs.append(z3.Implies(a.is_('Array'), a.field('Array', 1) == b.field('Array', 1)))
        cs.append(z3.Implies(a.is_('ArrayWithNamedLength'),
                             a.field('ArrayWithNamedLength', 1) == b.field('ArrayWithNamedLength', 1)))
    cs.append(z3.Implies(a.is_('Struct'), a.field('Struct', 0) == b.field('Struct', 0)))
    cs.append(z3.Implies(a.is_('Word'), zand(a.field('Word', 0) == b.field('Word', 0),
                                               a.field('Word', 1) == b.field('Word', 1))))
    cs.append(z3.Implies(a.is_('UnresolvedStructOrWord'),
                         opt_eq(a.field('UnresolvedStructOrWord', 0), b.field('UnresolvedStructOrWord', 0))))
    if ca is not None and cb is not None:
        cs.append(z3.Implies(a.is_(*BOXED), equals(ca, cb)))
    return zor(alias, zand(*cs))


def elem_of(a, b, rel, a_kinds, b_kind):
    """a is one of a_kinds, b is b_kind, and their components are related by rel."""
    ca, cb = a.child(), b.child()
    if ca is None or cb is None:
        return FALSE
    return zand(a.is_(*a_kinds), b.is_(b_kind), rel(ca, cb))


@memo
def can_coerce_into(a, b):
    """The documented implicit coercions of values: an array (`[N]T`, also with a named length)
    coerces into the slice `[]T` and into the view `([...]T)`... precisely:
      [N]T -> []T          [N]T -> (view of [...]T)
      []T  -> (view of [...]T)
      &[]T -> &[...]T      (slice pointer into pointer to endless array)
      struct S -> (view of S)
    and nothing else; component types must be identical (modulo char8/u8)."""
    cb = b.child()
    arr = ['Array', 'ArrayWithNamedLength']
    r = [elem_of(a, b, equals, arr, 'Slice')]
    if cb is not None:
        # b = View(EndlessArray e) / Pointer(EndlessArray e)
        inner = cb
        ci = inner.child()
        ca = a.child()
        if ci is not None and ca is not None:
            r.append(zand(a.is_(*arr, 'Slice'), b.is_('View'), inner.is_('EndlessArray'), equals(ca, ci)))
            r.append(zand(a.is_('SlicePointer'), b.is_('Pointer'), inner.is_('EndlessArray'), equals(ca, ci)))
        r.append(zand(a.is_('Struct'), b.is_('View'), same(inner, a)))
    return zor(*r)


@memo
def can_coerce_address_into(a, b):
    """Taking the address of an array gives a slice pointer `&[]T` or a pointer to `[...]T`."""
    arr = ['Array', 'ArrayWithNamedLength']
    r = [elem_of(a, b, equals, arr, 'SlicePointer')]
    cb, ca = b.child(), a.child()
    if cb is not None and ca is not None and cb.child() is not None:
        r.append(zand(a.is_(*arr), b.is_('Pointer'), cb.is_('EndlessArray'), equals(ca, cb.child())))
    return zor(*r)


# ---- legality of types per position (E350-E356) ------------------------------------------------
@memo
def sized_element(t):
    """May be the element of an array-like: must have a compile-time size or be an array-like
    placeholder; void, slices, endless arrays and views are not elements.  NOTE: admitting the placeholder `[]T`
    (Arraylike) here transcribes the code, not docs/errors.md E350; the documented rule is decided separately
    (c11.py, clause docs-E350:array-view-as-element, a recorded known finding)."""
    return znot(t.is_('Void', 'Slice', 'SlicePointer', 'EndlessArray', 'View'))


@memo
def has_view_element(t):
    """Somewhere in t an array view `[]T` (as parsed: Arraylike) is the element of an array, array view, slice pointer or
    endless array - `[10][]u8`, `[][]i32`: docs/errors.md E350 calls these invalid because `[]T` has no compile-time size."""
    c = t.child()
    if c is None:
        return FALSE
    here = zand(t.is_('Array', 'ArrayWithNamedLength', 'Slice', 'SlicePointer', 'EndlessArray', 'Arraylike'), c.is_('Arraylike'))
    return zor(here, zand(t.is_(*BOXED), has_view_element(c)))


@memo
def wf_inner(t):
    """Well-formedness of a type nested inside another type."""
    c = t.child()
    rec_elem = zand(sized_element(c), wf_inner(c)) if c is not None else FALSE
    rec_inner = wf_inner(c) if c is not None else FALSE
    return zor(
        zand(t.is_('Array', 'ArrayWithNamedLength', 'EndlessArray', 'Arraylike'), rec_elem),
        zand(t.is_('Pointer'), rec_inner),
        zand(znot(t.is_('Void', 'Slice', 'SlicePointer', 'View', *[b for b in BOXED])), TRUE),
    )


@memo
def wf(t):
    """E350: `[N]T`, `[]T`, `&[]T`, `[...]T` need a well-formed element with a known size;
    pointers and views need a well-formed, non-void, non-slice, non-view target."""
    c = t.child()
    rec_elem = zand(sized_element(c), wf_inner(c)) if c is not None else FALSE
    rec_inner = wf_inner(c) if c is not None else FALSE
    return zor(
        zand(t.is_('Array', 'ArrayWithNamedLength', 'Slice', 'SlicePointer', 'EndlessArray', 'Arraylike'), rec_elem),
        zand(t.is_('Pointer', 'View'), rec_inner),
        znot(t.is_(*BOXED)),
    )


def can_be_returned(t):
    # E351: structs, arrays and array views cannot be returned (nor unresolved names, nor views)
    return zand(wf(t), znot(t.is_('Array', 'ArrayWithNamedLength', 'Slice', 'SlicePointer', 'EndlessArray',
                                  'Arraylike', 'Struct', 'UnresolvedStructOrWord', 'View')))


def can_be_variable(t):
    # E352
    return zand(wf(t), znot(t.is_('Void', 'SlicePointer', 'EndlessArray', 'Arraylike', 'View')))


def can_be_constant(t):
    # E353
    return zand(wf(t), znot(t.is_('Void', 'Slice', 'SlicePointer', 'EndlessArray', 'Arraylike')))


def can_be_parameter(t):
    # E354: arrays and structs are passed by view; void is not a value
    return zand(wf(t), znot(t.is_('Void', 'Array', 'ArrayWithNamedLength', 'EndlessArray', 'Arraylike', 'Struct')))


def can_be_struct_member(t):
    # E356
    return zand(wf(t), znot(t.is_('Void', 'Slice', 'SlicePointer', 'EndlessArray', 'Arraylike', 'View')))


WORD_MEMBER_SIZE = {'Int8': 1, 'Int16': 2, 'Int32': 4, 'Int64': 8, 'Int128': 16, 'Uint8': 1, 'Uint16': 2,
                    'Uint32': 4, 'Uint64': 8, 'Uint128': 16, 'Char8': 1, 'Bool': 1}


def can_be_word_member(t):
    # E356: fixed size integers, bool (and char8) or other words
    return zand(can_be_struct_member(t), t.is_(*WORD_MEMBER_SIZE, 'Word'))


def can_be_sized(t):
    return znot(t.is_('Void', 'Slice', 'SlicePointer', 'EndlessArray', 'Arraylike', 'View'))


BOUNDS = {
    'Int8': (-(1 << 7), (1 << 7) - 1), 'Int16': (-(1 << 15), (1 << 15) - 1), 'Int32': (-(1 << 31), (1 << 31) - 1),
    'Int64': (-(1 << 63), (1 << 63) - 1), 'Int128': (-(1 << 127), (1 << 127) - 1),
    'Uint8': (0, (1 << 8) - 1), 'Uint16': (0, (1 << 16) - 1), 'Uint32': (0, (1 << 32) - 1),
    'Uint64': (0, (1 << 64) - 1), 'Uint128': (0, (1 << 128) - 1), 'Usize': (0, (1 << 64) - 1),
    'Char8': (0, 255), 'Pointer': (0, (1 << 64) - 1), 'View': (0, (1 << 64) - 1),
}


def min_i128(t):
    r = z3.BitVecVal(0, 128)
    for k, (lo, hi) in BOUNDS.items():
        r = z3.If(t.is_(k), z3.BitVecVal(lo, 128), r)
    return r


def max_u128(t):
    r = z3.BitVecVal(0, 128)
    for k, (lo, hi) in BOUNDS.items():
        r = z3.If(t.is_(k), z3.BitVecVal(hi, 128), r)
    return r


# ---- autoderef, declaration matching (transcribed rules; see DESIGN.md section C07) -------------
def viewee(t):
    c = t.child()
    return c


@memo
def sub_autoderef(a, b):
    """Strip one pointer (or view) layer of a; the result is b, or can itself be stripped into b, or b
    is a pointer (view) whose target can be reached that way."""
    d = a.child()
    if d is None:
        return FALSE
    tb = b.child()
    via_view = zor(equals(d, b), sub_autoderef(d, b),
                   zand(b.is_('View'), sub_autoderef(d, tb)) if tb is not None else FALSE)
    via_ptr = zor(equals(d, b), sub_autoderef(d, b),
                  zand(b.is_('Pointer'), sub_autoderef(d, tb)) if tb is not None else FALSE)
    return zor(zand(a.is_('View'), via_view), zand(a.is_('Pointer'), via_ptr))


@memo
def can_autoderef_into(a, b):
    d = a.child()
    direct = zand(a.is_('Array', 'ArrayWithNamedLength', 'Slice', 'SlicePointer', 'EndlessArray', 'Struct'),
                  zor(equals(a, b), can_coerce_into(a, b)))
    if d is None:
        return direct
    tb = b.child()
    view = zand(a.is_('View'), zor(equals(a, b), equals(d, b), sub_autoderef(d, b),
                                   zand(b.is_('View'), sub_autoderef(d, tb)) if tb is not None else FALSE))
    ptr = zand(a.is_('Pointer'), zor(equals(a, b), equals(d, b), can_coerce_address_into(d, b), sub_autoderef(d, b),
                                     zand(b.is_('Pointer'), sub_autoderef(d, tb)) if tb is not None else FALSE))
    return zor(direct, view, ptr)


@memo
def is_like(a, b):
    """a is b, or a is an array form whose element is like the element of the placeholder `[_]T`."""
    ca, cb = a.child(), b.child()
    rec = is_like(ca, cb) if ca is not None and cb is not None else FALSE
    return zor(zand(a.is_('Array', 'ArrayWithNamedLength', 'EndlessArray'), b.is_('Arraylike'), rec), same(a, b))


@memo
def can_be_declared_as(a, b):
    ca, cb = a.child(), b.child()
    r = [same(a, b)]
    if ca is not None and cb is not None:
        r.append(zand(a.is_('Array', 'ArrayWithNamedLength', 'Slice'), b.is_('Arraylike'), same(ca, cb)))
        cbb = cb.child()
        if cbb is not None:
            r.append(zand(a.is_('SlicePointer'), b.is_('Pointer'), cb.is_('Arraylike'), same(ca, cbb)))
    # a slice pointer declared as a pointer to anything else is rejected even if "identical"
    return zor(*r)


@memo
def can_be_concretization_of(a, b):
    ca, cb = a.child(), b.child()
    has = ca is not None and cb is not None
    rec = can_be_concretization_of(ca, cb) if has else FALSE
    like_c = is_like(ca, cb) if has else FALSE
    r = []
    # arrays with a length
    r.append(zand(a.is_('Array'), zor(zand(b.is_('Array'), a.field('Array', 1) == b.field('Array', 1), rec) if a.has('Array') and b.has('Array') else FALSE,
                                      zand(znot(b.is_('Array')), is_like(a, b)))))
    r.append(zand(a.is_('ArrayWithNamedLength'),
                  zor(zand(b.is_('ArrayWithNamedLength'),
                           a.field('ArrayWithNamedLength', 1) == b.field('ArrayWithNamedLength', 1), rec) if a.has('ArrayWithNamedLength') and b.has('ArrayWithNamedLength') else FALSE,
                      zand(znot(b.is_('ArrayWithNamedLength')), is_like(a, b)))))
    r.append(zand(a.is_('Slice'), zor(zand(b.is_('Slice'), rec), zand(b.is_('Arraylike'), like_c),
                                      zand(znot(b.is_('Slice', 'Arraylike')), same(a, b)))))
    cbb = cb.child() if cb is not None else None
    ptr_case = zand(b.is_('Pointer'), zor(zand(cb.is_('Arraylike'), is_like(ca, cbb)) if (has and cbb is not None) else FALSE,
                                          zand(znot(cb.is_('Arraylike')) if cb is not None else TRUE, same(a, b))))
    r.append(zand(a.is_('SlicePointer'), zor(zand(b.is_('SlicePointer'), rec), zand(b.is_('Arraylike'), like_c), ptr_case,
                                             zand(znot(b.is_('SlicePointer', 'Arraylike', 'Pointer')), same(a, b)))))
    r.append(zand(a.is_('EndlessArray'), zor(zand(b.is_('EndlessArray'), rec), zand(znot(b.is_('EndlessArray')), is_like(a, b)))))
    r.append(zand(a.is_('Arraylike'), zor(zand(b.is_('Arraylike'), rec), zand(znot(b.is_('Arraylike')), same(a, b)))))
    for kind in ('Struct', 'Word'):
        ub = b.field('UnresolvedStructOrWord', 0)
        unresolved = zand(b.is_('UnresolvedStructOrWord'),
                          zor(ub.discr == bv(0, 64), ub.variants['Some'][0] == a.field(kind, 0)))
        r.append(zand(a.is_(kind), zor(unresolved, zand(znot(b.is_('UnresolvedStructOrWord')), same(a, b)))))
    r.append(zand(a.is_('View'), zor(zand(b.is_('View'), rec), zand(znot(b.is_('View')), same(a, b)))))
    r.append(zand(a.is_('Pointer'), zor(zand(b.is_('Pointer'), rec), zand(znot(b.is_('Pointer')), same(a, b)))))
    r.append(zand(znot(a.is_(*BOXED, 'Struct', 'Word')), same(a, b)))
    return zor(*r)
