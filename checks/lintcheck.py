"""Range-lint clause of C09: `ValueType::min_i128` / `max_u128` equal the documented integer ranges, and the
literal arms of `<Expression as Lintable>::lint` raise L1142 exactly when the (mathematical) value of an
integer literal lies outside the range of its type; every 128-bit value, every type."""
import random
import re
import time
import z3

from common import log, seed, Inconclusive
import replay
import vtcheck
import vtlib
import vtref
from mirsym import Executor, State, ValRef, PlaceRef, Agg, EnumV, Unsupported, bv, zand, zor, znot
import mirmodels

VT = 'alpha::value_type::ValueType<common::Identifier>'


def native(lines):
    binary, _ = replay.build()
    rc, out, err = replay.run(binary, ['lint-eval'], stdin='\n'.join(lines) + '\n', timeout=300)
    if rc != 0:
        raise Inconclusive('native lint evaluation failed: ' + err[-300:])
    res = out.strip().split('\n')
    if len(res) != len(lines):
        raise Inconclusive('native lint evaluation: %d answers for %d requests' % (len(res), len(lines)))
    return res


def run(S, tier):
    """S: vtcheck.Session (generic I) used for min/max; the lint function is run on common::Expression."""
    a = S.Ta
    mn = S.run('min_i128', 1)
    mx = S.run('max_u128', 1)
    S.expect_unsat('spec:min_i128', mn != vtref.min_i128(a), 'min_i128 is the least value of each integer type (0 for unsigned, usize = 64 bit)', 1, [('min_i128', 1)])
    S.expect_unsat('spec:max_u128', mx != vtref.max_u128(a), 'max_u128 is the greatest value of each integer type (usize = 64 bit)', 1, [('max_u128', 1)])
    S.validate(['min_i128', 'max_u128'], [], 400, 0)

    ex = Executor(S.dump, S.defs)
    ex.abstract_types = {'Identifier': 16}
    e = ex.fresh_value('alpha::common::Expression', 'lit', depth=1,
                       expand=lambda b: b in ('Expression', 'ValueType', 'Poison'))
    kinds = S.kinds
    edef = e.edef
    d_s = edef.variant_by_name('SignedIntegerLiteral')[1]
    d_b = edef.variant_by_name('BitIntegerLiteral')[1]
    ex.assume(zor(e.discr == bv(d_s, 64), e.discr == bv(d_b, 64)))
    ex.base_dom[e.discr.decl().name()] = frozenset([d_s, d_b])
    hdr = [n for n in S.dump.function_names() if re.search(r'linter\.rs[^>]*>::lint$', n)
           and S.dump.get(n).params[0][1].endswith('common::Expression')]
    if len(hdr) != 1:
        raise Inconclusive('<Expression as Lintable>::lint not found in the MIR dump')
    f = S.dump.get(hdr[0])
    st = State()
    none = EnumV(S.defs.find_enum('Option'), bv(0, 64), {'None': ()})
    st.mem[(0, 'linter')] = Agg([mirmodels.new_vec(3, bv(0, 64), bv(0, 64)), none, none], 'Linter')
    t0 = time.time()
    try:
        # Linter { lints: Vec<Lint>, .. }: the Vec lives in its own cell so that push can update it
        g, _ = ex.call_function(f, [ValRef(e), PlaceRef((0, 'linter'))], z3.BoolVal(True), st)
    except Unsupported as err:
        raise Inconclusive('cannot encode <Expression as Lintable>::lint: %s' % err)
    S.exec_s += time.time() - t0
    S.functions.append(f.name)
    nl = st.mem[(0, 'linter')].fields[0].f['len']
    linted = nl == bv(1, 64)
    # the literal's fields
    sv = e.variants['SignedIntegerLiteral']
    bvv = e.variants['BitIntegerLiteral']
    names_s = [n for n, _ in edef.variant_by_name('SignedIntegerLiteral')[2]]
    names_b = [n for n, _ in edef.variant_by_name('BitIntegerLiteral')[2]]
    val_s, vt_s = sv[names_s.index('value')], sv[names_s.index('value_type')]
    val_b, vt_b = bvv[names_b.index('value')], bvv[names_b.index('value_type')]
    assert vt_s is vt_b      # shared payload slot
    some_ok = zand(vt_s.discr == bv(1, 64), vt_s.variants['Some'][0].discr == bv(0, 64))
    ty = vtref.T(vt_s.variants['Some'][0].variants['Ok'][0])
    in_bounds_types = ty.is_(*vtref.BOUNDS)
    lo = z3.BitVecVal(0, 130)
    hi = z3.BitVecVal(0, 130)
    for k, (l_, h_) in vtref.BOUNDS.items():
        lo = z3.If(ty.is_(k), z3.BitVecVal(l_, 130), lo)
        hi = z3.If(ty.is_(k), z3.BitVecVal(h_, 130), hi)
    sval = z3.SignExt(2, val_s)
    uval = z3.ZeroExt(2, val_b)
    out_s = zor(sval < lo, sval > hi)
    out_b = uval > hi
    is_s = e.discr == bv(d_s, 64)
    expected = z3.If(is_s, out_s, out_b)
    obs = [og for k, og, m in ex.obligations]
    solver = z3.Solver()
    solver.add(*ex.assumptions)

    def ask(qname, formula, text):
        t = time.time()
        solver.push()
        solver.add(formula)
        r = solver.check()
        m = solver.model() if r == z3.sat else None
        solver.pop()
        dt = time.time() - t
        S.solver_s += dt
        if r == z3.unknown:
            raise Inconclusive('z3 answered unknown on %s' % qname)
        q = {'name': qname, 'result': str(r), 'seconds': round(dt, 3), 'statement': text}
        S.queries.append(q)
        if r == z3.sat:
            t_ = vtlib.from_model(m, vt_s.variants['Some'][0].variants['Ok'][0], kinds)
            signed = z3.is_true(m.eval(is_s, model_completion=True))
            if signed:
                v = m.eval(val_s, model_completion=True).as_signed_long()
                line = 'signed %d %s' % (v, vtlib.wire(t_))
            else:
                v = m.eval(val_b, model_completion=True).as_long()
                line = 'bit %d %s' % (v, vtlib.wire(t_))
            got = native([line])[0]
            enc = '[1142]' if z3.is_true(m.eval(linted, model_completion=True)) else '[]'
            q['counterexample'] = {'request': line, 'native': got}
            if got != enc:
                raise Inconclusive('lint counterexample %s does not reproduce natively: %s vs encoding %s' % (line, got, enc))
            S.violations.append({'query': qname, 'statement': text, 'a': t_, 'b': None, 'functions': [], 'model': m,
                                 'native_request': line, 'native_answer': got, 'confirmed': True})

    ask('lint-iff-out-of-range', zand(g, some_ok, in_bounds_types, linted != expected),
        'an integer literal raises L1142 iff its value lies outside [min, max] of its type')
    ask('lint-at-most-one', zand(g, znot(zor(nl == bv(0, 64), nl == bv(1, 64)))), 'a literal raises at most one lint')
    ask('lint-no-panic', zor(znot(g), *obs), 'linting a literal never panics')
    ask('lint-needs-known-type', zand(g, znot(some_ok), nl != bv(0, 64)), 'a literal without a resolved type is not linted')

    # native validation of the lint encoding on boundary values
    rng = random.Random(seed() * 13 + 3)
    lines, expect = [], []
    for k, (l_, h_) in vtref.BOUNDS.items():
        t_ = (k,) if k not in ('Pointer', 'View') else (k, ('Int8',))
        for v in {l_, l_ - 1, l_ + 1, h_, h_ + 1, h_ - 1, 0, -1, 1}:
            if -(1 << 127) <= v < (1 << 127):
                lines.append('signed %d %s' % (v, vtlib.wire(t_)))
                expect.append(('s', v, t_))
            if 0 <= v < (1 << 128):
                lines.append('bit %d %s' % (v, vtlib.wire(t_)))
                expect.append(('b', v, t_))
    res = native(lines)
    bad = []
    s2 = z3.Solver()
    tyv = vt_s.variants['Some'][0].variants['Ok'][0]
    for (kind, v, t_), line, r in zip(expect, lines, res):
        s2.push()
        s2.add(some_ok)
        for var, val in vtlib.assignment(tyv, t_, kinds, []):
            s2.add(var == val)
        if kind == 's':
            s2.add(e.discr == bv(d_s, 64), val_s == z3.BitVecVal(v, 128))
        else:
            s2.add(e.discr == bv(d_b, 64), val_b == z3.BitVecVal(v, 128))
        if s2.check() != z3.sat:
            s2.pop()
            raise Inconclusive('lint sample %s unsatisfiable in the encoding' % line)
        enc = '[1142]' if z3.is_true(s2.model().eval(linted, model_completion=True)) else '[]'
        s2.pop()
        if enc != r:
            bad.append((line, enc, r))
    if bad:
        raise Inconclusive('lint encoding disagrees with the native linter on %d cases, e.g. %r' % (len(bad), bad[:3]))
    S.validated += len(lines)
    for k, v in ex.used_models.items():
        S.ex.used_models[k] += v
    S.ex.stats['blocks'] += ex.stats['blocks']


def PlaceRefVec(cell):
    return PlaceRef(cell)
