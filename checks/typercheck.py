"""Two typer rules that C11 names (part of C11):

(a) E358, "non-ABI types in `extern` signatures": `typer::fix_type_for_flags` with `externalize_type`, symbolically executed
    from MIR for every well-formed type of nesting depth <= D, every declaration context and both settings of the
    `extern` flag.  Rule (docs/errors.md E358, README "External functions"): behind `extern` only pointers, views and
    array views over the fixed-width integers up to 64 bits, usize and char8 are allowed; `[]T` becomes a view of the
    endless array `[...]T` at the top and `[...]T` below; without `extern`, `[]T` is a slice, `&[]T` a slice pointer,
    a struct parameter or return value is passed as a view, everything else is unchanged.

(b) E380, "words larger than declared": `Typer::align_struct` on up to M members with symbolic word-member types and a
    symbolic declared size: a word is accepted iff its members, laid out in order at their natural alignment (the next
    power of two of the size, at most 8) and padded to the largest alignment, fit in the declared size; the error reports
    the padded size in bits; a struct is always accepted; no arithmetic overflow or failed assertion.
"""
import os
import random
import re
import time
import z3

from common import REPO, log, seed, Inconclusive
import replay
import vtlib
import vtcheck
import vtref
from mirsym import (Executor, State, ValRef, PlaceRef, Opaque, EnumV, BoxV, BoxPtr, Agg, Model, Unsupported, PathAbort,
                    bv, zand, zor, znot, zite)

VT = 'alpha::value_type::ValueType<common::Identifier>'
ABI_LEAVES = ['Int8', 'Int16', 'Int32', 'Int64', 'Uint8', 'Uint16', 'Uint32', 'Uint64', 'Usize', 'Char8']
CONTEXTS = ['Const', 'Member', 'Parameter', 'Returned']


def native(S, lines):
    replay.write_generated({'value_types': vtlib.gen_value_types_rs(S.edef, list(vtcheck.PUB_UNARY), list(vtcheck.PUB_BINARY), S.kinds)})
    binary, _ = replay.build()
    rc, out, err = replay.run(binary, ['typer-eval'], stdin='\n'.join(lines) + '\n', timeout=300)
    if rc != 0:
        raise Inconclusive('native typer evaluation failed: ' + err[-300:])
    res = out.split('\n')[:len(lines)]
    if len(res) != len(lines):
        raise Inconclusive('native typer evaluation: %d answers for %d requests' % (len(res), len(lines)))
    return res


# ------------------------------------------------------------------------------ concrete reference (for replay judgement)
def c_ext_ok(t):
    if t[0] in ABI_LEAVES:
        return True
    if t[0] == 'Arraylike':
        # the elements of an array need a size: an array view of array views has no ABI representation
        return t[1][0] != 'Arraylike' and c_ext_ok(t[1])
    if t[0] in ('Pointer', 'View'):
        return c_ext_ok(t[1])
    return False


def c_ext_map(t):
    if t[0] == 'Arraylike':
        return ('EndlessArray', c_ext_map(t[1]))
    if t[0] in ('Pointer', 'View'):
        return (t[0], c_ext_map(t[1]))
    return t


def c_fix(t, ctx, ext):
    """Expected answer of `fix <ctx> <ext> <type>`."""
    if ext:
        if not c_ext_ok(t):
            return 'err358'
        if t[0] == 'Arraylike':
            return 'ok ' + vtlib.wire(('View', ('EndlessArray', c_ext_map(t[1]))))
        return 'ok ' + vtlib.wire(c_ext_map(t))
    if t[0] == 'Arraylike':
        return 'ok ' + vtlib.wire(('Slice', t[1]))
    if t[0] == 'Struct' and CONTEXTS[ctx] in ('Parameter', 'Returned'):
        return 'ok ' + vtlib.wire(('View', t))
    if t[0] == 'Pointer' and t[1][0] == 'Arraylike':
        return 'ok ' + vtlib.wire(('SlicePointer', t[1][1]))
    return 'ok ' + vtlib.wire(t)


SIZES = {'Int8': 1, 'Int16': 2, 'Int32': 4, 'Int64': 8, 'Int128': 16, 'Uint8': 1, 'Uint16': 2, 'Uint32': 4, 'Uint64': 8,
         'Uint128': 16, 'Char8': 1, 'Bool': 1}


def c_size(t):
    if t[0] == 'Word':
        return t[2]
    return SIZES.get(t[0])


def c_layout(members):
    total, biggest = 0, 1
    for t in members:
        sz = c_size(t)
        al = 1
        while al < sz:
            al *= 2
        al = min(al, 8)
        total = (total + al - 1) // al * al + sz
        biggest = max(biggest, al)
    return (total + biggest - 1) // biggest * biggest


def c_align(structural, members):
    if structural[0] == 'Struct':
        return 'ok ' + vtlib.wire(structural)
    need = c_layout(members)
    if need <= structural[2]:
        return 'ok ' + vtlib.wire(structural)
    return 'err380:%d:%d' % (8 * need, 8 * structural[2])


# ------------------------------------------------------------------------------ symbolic side
def bind(sym, t, kinds):
    """Constraints that make the symbolic type `sym` denote the concrete type t (None if t is deeper than sym)."""
    try:
        return [a == b for a, b in vtlib.assignment(sym, t, kinds, [])]
    except (Inconclusive, AttributeError, KeyError):
        return None


def kid(v, variant):
    """The boxed component of `variant` of a value built by the code (no slot sharing between its variants)."""
    f = v.variants.get(variant) if isinstance(v, EnumV) else None
    if not f or not isinstance(f[0], (BoxV, BoxPtr)):
        return None
    return f[0].content


def rel_same(out, t):
    """out is the same type as the symbolic input type t (identifiers are 16-bit tokens here)."""
    if out is None or t is None or not isinstance(out, EnumV) or not isinstance(t, EnumV):
        return z3.BoolVal(False)
    cases = [out.discr == t.discr]
    for vname, d, fields in t.edef.variants:
        if vname not in t.variants or not fields:
            continue
        here = t.discr == bv(d, 64)
        fo = out.variants.get(vname)
        if fo is None:
            cases.append(znot(here))
            continue
        eqs = []
        for x, y in zip(fo, t.variants[vname]):
            if isinstance(y, (BoxV, BoxPtr)):
                eqs.append(rel_same(x.content if isinstance(x, (BoxV, BoxPtr)) else None, y.content))
            elif isinstance(y, EnumV):
                eqs.append(vtref.opt_eq(x, y))
            else:
                eqs.append(x == y)
        cases.append(z3.Implies(here, zand(*eqs)))
    return zand(*cases)


def rel_ext(out, t):
    """out == ext_map(t) for symbolic types; False below the materialised depth of either side."""
    if out is None or t is None or not isinstance(out, EnumV) or not isinstance(t, EnumV):
        return z3.BoolVal(False)
    To, Tt = vtref.T(out), vtref.T(t)
    cases = [z3.Implies(Tt.is_(n), To.is_(n)) for n in ABI_LEAVES]
    ct = Tt.child()
    if ct is not None:
        cases.append(z3.Implies(Tt.is_('Arraylike'), zand(To.is_('EndlessArray'), rel_ext(kid(out, 'EndlessArray'), ct.v))))
        cases.append(z3.Implies(Tt.is_('Pointer'), zand(To.is_('Pointer'), rel_ext(kid(out, 'Pointer'), ct.v))))
        cases.append(z3.Implies(Tt.is_('View'), zand(To.is_('View'), rel_ext(kid(out, 'View'), ct.v))))
    else:
        cases.append(znot(Tt.is_('Arraylike', 'Pointer', 'View')))
    cases.append(Tt.is_('Arraylike', 'Pointer', 'View', *ABI_LEAVES))
    return zand(*cases)


def ext_ok(t):
    if t is None or not isinstance(t, EnumV):
        return z3.BoolVal(False)
    Tt = vtref.T(t)
    c = Tt.child()
    inner = ext_ok(c.v) if c is not None else z3.BoolVal(False)
    nested = c.is_('Arraylike') if c is not None else z3.BoolVal(False)
    return zor(Tt.is_(*ABI_LEAVES), zand(Tt.is_('Pointer', 'View'), inner), zand(Tt.is_('Arraylike'), inner, znot(nested)))


def within_depth(t, d):
    """The type has at most d constructor levels (so that every level of it is materialised)."""
    if t is None or not isinstance(t, EnumV):
        return z3.BoolVal(True)
    Tt = vtref.T(t)
    c = Tt.child()
    if d <= 1 or c is None:
        return znot(Tt.is_(*vtref.BOXED))
    return z3.Implies(Tt.is_(*vtref.BOXED), within_depth(c.v, d - 1))


def run(S, tier):
    t_start = time.time()
    out = {}
    out.update(extern_clause(S, tier))
    out.update(align_clause(S, tier))
    S.exec_s += time.time() - t_start
    return out


def _solve(S, ex, items, handle, parallel=False, timeout_s=1800):
    """items: (name, formula, text, kind).  Decided with the QF_BV solver, in-process or (parallel) one z3 process per
    query; `handle(q, name, text, kind, model)` is called for every query (model None unless satisfiable)."""
    solver = z3.SolverFor('QF_BV')
    solver.add(*ex.assumptions)
    pre_answers = None
    if parallel:
        import containercheck
        pre_answers = containercheck.solve_batch([(q_, f_, t_, k_, (), solver) for q_, f_, t_, k_ in items], timeout_s)
    for idx, (qname, formula, text, kind) in enumerate(items):
        t = time.time()
        if pre_answers is not None and pre_answers[idx][0] == 'unsat':
            r, m = z3.unsat, None
        elif pre_answers is not None and pre_answers[idx][0] not in ('sat', 'unsat', 'error'):
            raise Inconclusive('z3 answered %s on %s after %.0fs' % (pre_answers[idx][0], qname, pre_answers[idx][1]))
        else:
            solver.push()
            solver.add(formula)
            r = solver.check()
            m = solver.model() if r == z3.sat else None
            solver.pop()
        dt = (time.time() - t) + (pre_answers[idx][1] if pre_answers is not None else 0.0)
        S.solver_s += dt
        if os.environ.get('VERIF_DEBUG'):
            log('  %s: %s %.1fs' % (qname, r, dt))
        if r == z3.unknown:
            raise Inconclusive('z3 answered unknown on %s' % qname)
        q = {'name': qname, 'result': str(r), 'seconds': round(dt, 3), 'statement': text}
        if kind == 'witness':
            q['expected'] = 'sat'
        S.queries.append(q)
        handle(q, qname, text, kind, m)


def extern_clause(S, tier):
    depth = 3 if tier == 'quick' else 4
    ex = Executor(S.dump, S.defs)
    ex.abstract_types = {'Identifier': 16, 'EnumSet': 8, 'Location': 8}
    fdef = S.defs.find_enum('alpha::common::DeclarationFlag')
    cdef = S.defs.find_enum('alpha::typer::FixContext')
    edef = S.defs.find_enum('alpha::error::Error')
    if fdef is None or cdef is None:
        raise Inconclusive('DeclarationFlag / FixContext not found in the sources')
    if [v[0] for v in cdef.variants] != CONTEXTS:
        raise Inconclusive('FixContext variants changed: %r' % [v[0] for v in cdef.variants])
    t = ex.fresh_value(VT, 'xt', depth=depth + 1)
    ctx = ex.fresh_value('alpha::typer::FixContext', 'xctx', depth=1)
    flags = z3.BitVec('xflags', 8)
    ext_bit = bv(1 << fdef.variant_by_name('External')[1], 8)
    is_ext = (flags & ext_bit) != bv(0, 8)
    loc = z3.BitVec('xloc', 8)
    name = 'fix_type_for_flags'
    if name not in S.dump.fn_index:
        raise Inconclusive('%s not found in the MIR dump' % name)
    st = State()
    try:
        g, res = ex.call_function(S.dump.get(name), [t, ctx, ValRef(flags), ValRef(loc), ValRef(loc)], z3.BoolVal(True), st)
    except (Unsupported, PathAbort) as e:
        raise Inconclusive('cannot encode typer::fix_type_for_flags: %s' % e)
    Tt = vtref.T(t)
    wf = vtref.wf(Tt)
    pre = zand(wf, within_depth(t, depth))
    panics = [og for k_, og, _ in ex.obligations if k_ not in ('bound', 'unwind')]
    in_model = znot(zor(*[og for k_, og, _ in ex.obligations if k_ in ('bound', 'unwind')]))
    is_ok = res.discr == bv(0, 64)
    rt = res.variants['Ok'][0] if 'Ok' in res.variants else None
    err = res.variants['Err'][0] if 'Err' in res.variants else None
    e358 = zand(znot(is_ok), err.discr == bv(edef.variant_by_name('TypeNotAllowedInExtern')[1], 64)) if err is not None else z3.BoolVal(False)
    child = Tt.child()
    top_arraylike = Tt.is_('Arraylike')
    ok_ext = ext_ok(t)
    # expected result of the external path
    if rt is not None:
        To = vtref.T(rt)
        vk = kid(rt, 'View')
        ext_top = zand(To.is_('View'), vtref.T(vk).is_('EndlessArray') if vk is not None else z3.BoolVal(False),
                       rel_ext(kid(vk, 'EndlessArray'), child.v) if (vk is not None and child is not None) else z3.BoolVal(False))
        ext_result = zite(top_arraylike, ext_top, rel_ext(rt, t))
        is_ctx = lambda *ns: zor(*[ctx.discr == bv(cdef.variant_by_name(n)[1], 64) for n in ns])
        cc = child.child() if child is not None else None
        plain = zite(top_arraylike,
                     zand(To.is_('Slice'), rel_same(kid(rt, 'Slice'), child.v) if child is not None else z3.BoolVal(False)),
                     zite(zand(Tt.is_('Struct'), is_ctx('Parameter', 'Returned')),
                          zand(To.is_('View'), rel_same(kid(rt, 'View'), t)),
                          zite(zand(Tt.is_('Pointer'), child.is_('Arraylike') if child is not None else z3.BoolVal(False)),
                               zand(To.is_('SlicePointer'), rel_same(kid(rt, 'SlicePointer'), cc.v) if cc is not None else z3.BoolVal(False)),
                               rel_same(rt, t))))
    else:
        ext_result = plain = z3.BoolVal(False)
    # the callers assert that the fixed type is well-formed before they report E351/E354: the real is_wellformed on the result
    wf_out = z3.BoolVal(True)
    if rt is not None:
        try:
            _gw, wf_out = ex.call_function(S.fn('is_wellformed'), [ValRef(rt)], z3.BoolVal(True), State())
        except (Unsupported, PathAbort) as e:
            raise Inconclusive('cannot encode is_wellformed on the fixed type: %s' % e)
    pending, unconfirmed = [], []

    def handle(q, qname, text, kind, m):
        if kind == 'witness':
            if m is None:
                unconfirmed.append('vacuity witness %s is unsatisfiable' % qname)
            return
        if m is None:
            return
        if kind == 'bounds':
            unconfirmed.append('%s: the bounded models are exceeded' % qname)
            return
        if kind == 'wf':
            ct = vtlib.from_model(m, t, S.kinds)
            cx = cdef.variant_by_discr(m.eval(ctx.discr, model_completion=True).as_long())[0]
            ce = z3.is_true(m.eval(is_ext, model_completion=True))
            line = 'fixwf %d %d %s' % (cx, 1 if ce else 0, vtlib.wire(ct))
            got = native(S, [line])[0]
            q['counterexample'] = {'request': line, 'native': got}
            if not got.endswith(' illformed'):
                unconfirmed.append('counterexample of %s does not reproduce natively: %s -> %s' % (qname, line, got))
                return
            pending.append((qname, text, line, got, ct))
            return
        ct = vtlib.from_model(m, t, S.kinds)
        cx = cdef.variant_by_discr(m.eval(ctx.discr, model_completion=True).as_long())[0]
        ce = z3.is_true(m.eval(is_ext, model_completion=True))
        line = 'fix %d %d %s' % (cx, 1 if ce else 0, vtlib.wire(ct))
        got = native(S, [line])[0]
        want = c_fix(ct, cx, ce)
        q['counterexample'] = {'request': line, 'native': got, 'expected': want}
        if got == want:
            unconfirmed.append('counterexample of %s does not reproduce natively: %s -> %s' % (qname, line, got))
            return
        pending.append((qname, text, line, got, ct))

    base = zand(pre, in_model)
    e358_text = ('behind `extern` a type is accepted iff it is built from pointers, views and array views over i8..i64, u8..u64, usize and '
                 'char8, with no array view directly inside an array view (E358 otherwise)')
    items = [
        ('extern:total', zand(base, zor(znot(g), *panics)), 'fix_type_for_flags returns without panic for every well-formed type', 'fix'),
        ('extern:e358-iff', zand(base, g, is_ext, is_ok != ok_ext), e358_text, 'fix'),
        ('extern:e358-code', zand(base, g, is_ext, znot(ok_ext), znot(e358)), e358_text, 'fix'),
        ('extern:result', zand(base, g, is_ext, ok_ext, znot(ext_result)),
         'an accepted extern type keeps its shape, with `[]T` as a view of `[...]T` at the top and as `[...]T` below', 'fix'),
        ('extern:plain-total', zand(base, g, znot(is_ext), znot(is_ok)), 'without `extern` no type is rejected at this step', 'fix'),
        ('extern:plain-result', zand(base, g, znot(is_ext), znot(plain)),
         'without `extern`: `[]T` is a slice, `&[]T` a slice pointer, a struct parameter or return value a view of the struct, '
         'everything else unchanged', 'fix'),
        ('extern:result-wellformed', zand(base, g, is_ok, znot(wf_out)),
         'the fixed type of a well-formed type is well-formed (the callers assert it before reporting E351/E354)', 'wf'),
        ('extern:witness-accepted', zand(base, g, is_ext, ok_ext, top_arraylike), 'witness: an accepted extern array view', 'witness'),
        ('extern:witness-rejected', zand(base, g, is_ext, znot(ok_ext), Tt.is_('Pointer')), 'witness: a rejected extern pointer type', 'witness'),
        ('extern:model-bounds', zand(pre, znot(in_model)), 'the models suffice within the bound', 'bounds'),
    ]
    _solve(S, ex, items, handle)
    S.functions += ['typer::fix_type_for_flags', 'typer::externalize_type']

    # native validation
    rng = random.Random(seed() * 41 + 3)
    lv = vtlib.corpus(S.kinds, min(depth, 3), rng, 300)
    pool = [x for l in lv for x in l]
    reqs = []
    for _ in range(150 if tier == 'quick' else 600):
        x = rng.choice(pool)
        if rng.random() < 0.5:
            # bias towards extern-relevant shapes
            leaf = (rng.choice(ABI_LEAVES + ['Bool', 'Int128']),)
            for _k in range(rng.randint(0, 2)):
                leaf = (rng.choice(['Arraylike', 'Pointer', 'View']), leaf)
            x = leaf
        if vtlib.depth_of(x) <= depth:
            reqs.append((x, rng.randint(0, 3), rng.random() < 0.6))
    lines = ['fix %d %d %s' % (c, 1 if e else 0, vtlib.wire(x)) for x, c, e in reqs]
    got = native(S, lines)
    s2 = z3.Solver()
    s2.add(*ex.assumptions)
    universe = {}
    vtlib.all_vars(t, universe)
    used, bad = 0, []
    for (x, c, e), line, outl in zip(reqs, lines, got):
        if outl == 'PANIC':
            continue        # ill-formed input behind extern: the assert fires; the solver's total query covers well-formed ones
        cons = bind(t, x, S.kinds)
        if cons is None:
            continue
        s2.push()
        s2.add(*cons)
        s2.add(ctx.discr == bv(cdef.variant_by_name(CONTEXTS[c])[1], 64), flags == (ext_bit if e else bv(0, 8)))
        if s2.check() != z3.sat:
            s2.pop()
            continue
        m = s2.model()
        s2.pop()
        if not z3.is_true(m.eval(g, model_completion=True)):
            enc = 'PANIC'
        elif z3.is_true(m.eval(is_ok, model_completion=True)):
            enc = 'ok ' + vtlib.wire(vtlib.from_model(m, rt, S.kinds))
        else:
            enc = 'err%d' % _code(edef.variant_by_discr(m.eval(err.discr, model_completion=True).as_long())[1])
        used += 1
        if enc != outl:
            bad.append((line, enc, outl))
    if bad:
        raise Inconclusive('encoding disagrees with the native fix_type_for_flags: %r' % bad[:3])
    S.validated += used
    _finish(S, pending, unconfirmed)
    return {'extern_type_depth': depth, 'extern_native_comparisons': used}


def align_clause(S, tier):
    M = int(os.environ.get('ALIGN_M', 4 if tier == 'quick' else 5))
    ex = Executor(S.dump, S.defs, loop_bound=M + 2)
    ex.abstract_types = {'Location': 8, 'String': 8}
    ex.havoc_patterns = [r'HashMap::<u32, (?:typer::)?Structure>::insert$', r'::to_vec$']
    idef = S.defs.find_struct('alpha::common::Identifier')
    ridx = [f for f, _ in idef.fields].index('resolution_id')

    def conc(m, x):
        """Concrete leaf type (identifiers by resolution id) of the symbolic depth-1 type x in model m."""
        d = m.eval(x.discr, model_completion=True).as_long()
        _, v, fields = x.edef.variant_by_discr(d)
        out_ = [v]
        for sf in x.variants.get(v, ()):
            if isinstance(sf, Agg):
                out_.append(m.eval(sf.fields[ridx], model_completion=True).as_long())
            elif isinstance(sf, EnumV):
                some = m.eval(sf.discr, model_completion=True).as_long() == 1
                out_.append(m.eval(sf.variants['Some'][0].fields[ridx], model_completion=True).as_long() if some else None)
            elif isinstance(sf, (BoxV, BoxPtr)):
                out_.append(('Void',))
            else:
                out_.append(m.eval(sf, model_completion=True).as_long())
        return tuple(out_)

    def bind1(x, c):
        _, d, fields = x.edef.variant_by_name(c[0])
        cons_ = [x.discr == bv(d, 64)]
        for sf, cv in zip(x.variants.get(c[0], ()), c[1:]):
            if isinstance(sf, Agg):
                cons_.append(sf.fields[ridx] == bv(cv, 32))
            elif z3.is_expr(sf):
                cons_.append(sf == bv(cv, sf.size()))
        return cons_

    def same1(out, x):
        """out (built by the code) is the depth-1 type x."""
        if not isinstance(out, EnumV):
            return z3.BoolVal(False)
        cs = [out.discr == x.discr]
        for vname in ('Struct', 'Word'):
            if vname in x.variants:
                here = x.discr == bv(x.edef.variant_by_name(vname)[1], 64)
                fo = out.variants.get(vname)
                if fo is None:
                    cs.append(znot(here))
                    continue
                eqs = []
                for a_, b_ in zip(fo, x.variants[vname]):
                    eqs.append(a_.fields[ridx] == b_.fields[ridx] if isinstance(b_, Agg) else a_ == b_)
                cs.append(z3.Implies(here, zand(*eqs)))
        return zand(*cs)
    edef = S.defs.find_enum('alpha::error::Error')
    hits = [n for n in S.dump.function_names() if re.search(r'typer\.rs:\d+:\d+: \d+:\d+>::align_struct$', n)]
    if len(hits) != 1:
        raise Inconclusive('Typer::align_struct not found in the MIR dump')
    mdef = S.defs.find_struct('alpha::common::Member')
    mf = [f for f, _ in mdef.fields]
    rdef = S.defs.find_enum('Result')
    mtypes = [ex.fresh_value(VT, 'am%d' % i, depth=1) for i in range(M)]
    # the size of a member that is itself a word is one of 1, 2, 4, 8, 16 (word8 .. word128): a selector instead of a free
    # usize, so that sizes and alignments are if-then-else trees of constants (same domain, far cheaper arithmetic)
    for i, mt in enumerate(mtypes):
        if 'Word' in mt.variants:
            names_w = [f for f, _ in mt.edef.variant_by_name('Word')[2]]
            k = names_w.index('size_in_bytes')
            sel = z3.BitVec('am%d.sizeclass' % i, 3)
            ex.assume(z3.ULE(sel, bv(4, 3)))
            size = z3.If(sel == 0, bv(1, 64), z3.If(sel == 1, bv(2, 64), z3.If(sel == 2, bv(4, 64), z3.If(sel == 3, bv(8, 64), bv(16, 64)))))
            fs = list(mt.variants['Word'])
            fs[k] = size
            mt.variants['Word'] = tuple(fs)
    members = []
    for i, mt in enumerate(mtypes):
        fs = []
        for f, ft in mdef.fields:
            if f == 'value_type':
                fs.append(EnumV(rdef, bv(0, 64), {'Ok': (mt,)}))
            elif f == 'name':
                fs.append(EnumV(rdef, bv(0, 64), {'Ok': (Opaque('member%d' % i),)}))
            else:
                fs.append(Opaque('member%d.%s' % (i, f)))
        members.append(Agg(fs, 'Member'))
    n = z3.BitVec('amembers', 64)
    ex.assume(z3.ULE(n, bv(M, 64)))
    ex.var_bounds['amembers'] = (0, M)
    from mirsym import SliceRef
    mslice = SliceRef(members, bv(0, 64), n)
    stype = ex.fresh_value(VT, 'astruct', depth=1)
    Ts = vtref.T(stype)
    ident = ex.fresh_value('alpha::common::Identifier', 'aident', depth=1)
    tdef = S.defs.find_struct('alpha::typer::Typer')
    if tdef is None:
        raise Inconclusive('struct Typer not found')
    st = State()
    st.mem[(0, 'typer')] = Agg([Opaque('typer.' + (f or str(i))) for i, (f, _t) in enumerate(tdef.fields)], 'Typer')
    try:
        g, res = ex.call_function(S.dump.get(hits[0]), [PlaceRef((0, 'typer')), ValRef(ident), mslice,
                                                       EnumV(rdef, bv(0, 64), {'Ok': (stype,)})], z3.BoolVal(True), st)
    except (Unsupported, PathAbort) as e:
        raise Inconclusive('cannot encode Typer::align_struct: %s' % e)
    act = [z3.ULT(bv(i, 64), n) for i in range(M)]
    Tm = [vtref.T(x) for x in mtypes]
    wsize = [x.field('Word', 1) for x in Tm]
    sizes = []
    for x, ws in zip(Tm, wsize):
        sz = bv(0, 64)
        for nm, k in SIZES.items():
            sz = zite(x.is_(nm), bv(k, 64), sz)
        sz = zite(x.is_('Word'), ws, sz)
        sizes.append(sz)
    # members of a word are word members (E356 is decided before this step): sized leaves and words of 1/2/4/8/16 bytes
    member_ok = [zand(x.is_('Word', *SIZES), z3.Implies(x.is_('Word'), zor(*[ws == bv(k, 64) for k in (1, 2, 4, 8, 16)])))
                 for x, ws in zip(Tm, wsize)]
    declared = Ts.field('Word', 1)
    # declared sizes are those of word8 .. word128
    pre = zand(Ts.is_('Struct', 'Word'), zor(*[declared == bv(k, 64) for k in (1, 2, 4, 8, 16)]),
               *[z3.Implies(a, ok) for a, ok in zip(act, member_ok)])

    def al_of(sz):
        return zite(z3.ULE(sz, bv(1, 64)), bv(1, 64), zite(z3.ULE(sz, bv(2, 64)), bv(2, 64), zite(z3.ULE(sz, bv(4, 64)), bv(4, 64), bv(8, 64))))

    def round_up(x, a):
        return (x + a - bv(1, 64)) & ~(a - bv(1, 64))
    total, biggest = bv(0, 64), bv(1, 64)
    for a, sz in zip(act, sizes):
        al = al_of(sz)
        total = zite(a, round_up(total, al) + sz, total)
        biggest = zite(zand(a, z3.UGT(al, biggest)), al, biggest)
    need = round_up(total, biggest)
    plain_sum = bv(0, 64)
    for a, sz in zip(act, sizes):
        plain_sum = plain_sum + zite(a, sz, bv(0, 64))
    fits = z3.ULE(need, declared)
    is_ok = res.discr == bv(0, 64)
    rt = res.variants['Ok'][0] if 'Ok' in res.variants else None
    poison = res.variants['Err'][0] if 'Err' in res.variants else None
    pdef = S.defs.find_enum('alpha::error::Poison')
    err = poison.variants['Error'][0] if poison is not None and 'Error' in poison.variants else None
    is_e380 = z3.BoolVal(False)
    bits_ok = z3.BoolVal(False)
    if err is not None and 'WordSizeMismatch' in err.variants:
        is_e380 = zand(znot(is_ok), poison.discr == bv(pdef.variant_by_name('Error')[1], 64),
                       err.discr == bv(edef.variant_by_name('WordSizeMismatch')[1], 64))
        names = [f for f, _ in edef.variant_by_name('WordSizeMismatch')[2]]
        fs = err.variants['WordSizeMismatch']
        bits_ok = zand(fs[names.index('inferred_size_in_bits')] == bv(8, 64) * need,
                       fs[names.index('declared_size_in_bits')] == bv(8, 64) * declared)
    panics = [og for k_, og, _ in ex.obligations if k_ not in ('bound', 'unwind')]
    in_model = znot(zor(*[og for k_, og, _ in ex.obligations if k_ in ('bound', 'unwind')]))
    pending, unconfirmed = [], []

    def handle(q, qname, text, kind, m):
        if kind == 'witness':
            if m is None:
                unconfirmed.append('vacuity witness %s is unsatisfiable' % qname)
            return
        if m is None:
            return
        if kind == 'bounds':
            unconfirmed.append('%s: the bounded models are exceeded' % qname)
            return
        k = m.eval(n, model_completion=True).as_long()
        ms = [conc(m, x) for x in mtypes[:k]]
        sv = conc(m, stype)
        line = 'align %s %s' % (vtlib.wire(sv), ' '.join(vtlib.wire(x) for x in ms))
        got = native(S, [line.strip()])[0]
        want = c_align(sv, ms)
        q['counterexample'] = {'request': line, 'native': got, 'expected': want}
        if got == want:
            unconfirmed.append('counterexample of %s does not reproduce natively: %s -> %s' % (qname, line, got))
            return
        pending.append((qname, text, line, got, sv))

    base = zand(pre, in_model)
    e380_text = ('a word is accepted iff its members, laid out in order at their natural alignment and padded to the largest alignment, '
                 'fit in the declared size (E380 otherwise, reporting both sizes in bits); a struct is always accepted')
    items = [
        ('word:total', zand(base, zor(znot(g), *panics)), 'align_struct returns without overflow or failed assertion', 'align'),
        ('word:e380-iff', zand(base, g, is_ok != zor(Ts.is_('Struct'), fits)), e380_text, 'align'),
        ('word:e380-report', zand(base, g, Ts.is_('Word'), znot(fits), znot(zand(is_e380, bits_ok))), e380_text, 'align'),
        ('word:type-unchanged', zand(base, g, is_ok, znot(same1(rt, stype))) if rt is not None else z3.BoolVal(False),
         'an accepted structure or word keeps its type', 'align'),
        ('word:witness-fits', zand(base, g, Ts.is_('Word'), fits, n == bv(M, 64), need == declared), 'witness: a word that fits exactly', 'witness'),
        ('word:witness-padding', zand(base, g, Ts.is_('Word'), znot(fits), z3.ULE(plain_sum, declared)),
         'witness: a word whose member sizes add up to no more than the declared size but which does not fit because of padding', 'witness'),
        ('word:model-bounds', zand(pre, znot(in_model)), 'the loop unrolling suffices for every member list within the bound', 'bounds'),
    ]
    _solve(S, ex, items, handle, parallel=True)
    S.functions += ['Typer::align_struct', 'typer::align']

    # native validation
    rng = random.Random(seed() * 43 + 9)
    reqs = []
    leaves = list(SIZES)
    for _ in range(120 if tier == 'quick' else 500):
        k = rng.randint(0, M)
        ms = [((rng.choice(leaves),) if rng.random() < 0.8 else ('Word', rng.randint(1, 9), rng.choice([1, 2, 4, 8, 16]))) for _ in range(k)]
        sv = ('Word', rng.randint(1, 9), rng.choice([1, 2, 4, 8, 16])) if rng.random() < 0.8 else ('Struct', rng.randint(1, 9))
        reqs.append((sv, ms))
    lines = [('align %s %s' % (vtlib.wire(sv), ' '.join(vtlib.wire(x) for x in ms))).strip() for sv, ms in reqs]
    got = native(S, lines)
    s2 = z3.Solver()
    s2.add(*ex.assumptions)
    used, bad = 0, []
    for (sv, ms), line, outl in zip(reqs, lines, got):
        cons = [n == bv(len(ms), 64)] + bind1(stype, sv)
        for x, c in zip(mtypes, ms):
            cons += bind1(x, c)
        s2.push()
        s2.add(*cons)
        if s2.check() != z3.sat:
            s2.pop()
            continue
        m = s2.model()
        s2.pop()
        if not z3.is_true(m.eval(g, model_completion=True)):
            enc = 'PANIC'
        elif z3.is_true(m.eval(is_ok, model_completion=True)):
            enc = 'ok ' + vtlib.wire(conc(m, rt))
        elif z3.is_true(m.eval(is_e380, model_completion=True)):
            fs = err.variants['WordSizeMismatch']
            enc = 'err380:%d:%d' % (m.eval(fs[names.index('inferred_size_in_bits')], model_completion=True).as_long(),
                                    m.eval(fs[names.index('declared_size_in_bits')], model_completion=True).as_long())
        else:
            enc = 'other'
        used += 1
        if enc != outl:
            bad.append((line, enc, outl))
    if bad:
        raise Inconclusive('encoding disagrees with the native align_struct: %r' % bad[:3])
    S.validated += used
    _finish(S, pending, unconfirmed)
    return {'word_members': M, 'word_native_comparisons': used}


def _finish(S, pending, unconfirmed):
    if unconfirmed and not pending:
        raise Inconclusive('; '.join(unconfirmed[:3]))
    for qname, text, line, got_, ct in pending:
        S.violations.append({'query': qname, 'statement': text, 'a': ct, 'b': None, 'functions': [],
                             'native_request': line, 'native_answer': got_, 'confirmed': True, 'key_extra': line})


_CODES = {}


def _code(variant):
    if not _CODES:
        src = open(os.path.join(REPO, 'src', 'alpha', 'error.rs')).read()
        for m in re.finditer(r'Error::(\w+)\s*\{[^}]*\}\s*=>\s*(\d+)', src):
            _CODES.setdefault(m.group(1), int(m.group(2)))
    if variant not in _CODES:
        raise Inconclusive('code of Error::%s not found' % variant)
    return _CODES[variant]
