"""Shared session for checks over src/alpha/value_type.rs: symbolic execution of the functions from MIR,
solver queries against the reference model (vtref.py), native validation of the encoding."""
import os
import random
import re
import time
import z3

from common import REPO, log, mir_dump, seed, Inconclusive, cross_check_smt2, write_replay
import replay
from mirparse import MirDump
from rustdefs import RustDefs
from mirsym import Executor, State, ValRef, EnumV, Unsupported, bv
import vtlib
import vtref

PUB_UNARY = ['is_void', 'is_integral', 'known_size_in_bytes_as_word_member', 'is_signed', 'is_bitfield',
             'is_wellformed', 'can_be_sized', 'can_be_struct_member', 'can_be_word_member', 'can_be_constant',
             'can_be_variable', 'can_be_parameter', 'can_be_returned', 'pointer_depth', 'is_slice_pointer',
             'min_i128', 'max_u128']
SIGNED_RESULTS = {'min_i128'}
PUB_BINARY = ['can_be_declared_as', 'can_be_concretization_of', 'can_coerce_into', 'can_coerce_address_into',
              'can_autoderef_into']


class Session:
    def __init__(self, prop, depth):
        self.prop = prop
        self.depth = depth
        self.t0 = time.time()
        path, self.dump_s = mir_dump()
        self.dump = MirDump(path)
        self.defs = RustDefs(os.path.join(REPO, 'src'))
        self.ex = Executor(self.dump, self.defs)
        self.edef = self.defs.find_enum('alpha::value_type::ValueType')
        if self.edef is None:
            raise Inconclusive('enum ValueType not found in src/alpha/value_type.rs')
        self.kinds = vtlib.field_kinds(self.edef)
        vtlib.init_names(self.edef)
        self.a = self.ex.fresh_value('alpha::value_type::ValueType<I>', 'a', depth=depth)
        self.b = self.ex.fresh_value('alpha::value_type::ValueType<I>', 'b', depth=depth)
        self.universe = {}
        vtlib.all_vars(self.a, self.universe)
        vtlib.all_vars(self.b, self.universe)
        self.Ta, self.Tb = vtref.T(self.a), vtref.T(self.b)
        self.solver = z3.Solver()
        self.solver.add(*self.ex.assumptions)
        self.impl = {}
        self.queries = []         # dicts
        self.solver_s = 0.0
        self.violations = []
        self.cross = {}
        self.validated = 0
        self.functions = []
        self.exec_s = 0.0

    # ------------------------------------------------------------------ symbolic execution
    def fn(self, name):
        c = [n for n in self.dump.function_names()
             if re.search(r'value_type\.rs:\d+:\d+: \d+:\d+>::%s$' % re.escape(name), n)]
        c = [n for n in c if 'ValueType' not in n or True]
        # keep only the impl<I> ValueType<I> block (methods take &ValueType<I>)
        hits = []
        for n in c:
            f = self.dump.get(n)
            if f.params and 'ValueType<I>' in f.params[0][1]:
                hits.append(f)
        if len(hits) != 1:
            raise Inconclusive('function ValueType::%s not found (or ambiguous) in the MIR dump' % name)
        return hits[0]

    def run(self, name, arity):
        """Symbolically execute ValueType::name(&a[, &b]); returns the result value."""
        key = (name, arity)
        if key in self.impl:
            return self.impl[key]
        f = self.fn(name)
        if len(f.params) != arity:
            raise Inconclusive('ValueType::%s takes %d arguments, expected %d' % (name, len(f.params), arity))
        args = [ValRef(self.a), ValRef(self.b)][:arity]
        n_ob = len(self.ex.obligations)
        t = time.time()
        try:
            g, v = self.ex.call_function(f, args, z3.BoolVal(True), State())
        except Unsupported as e:
            raise Inconclusive('cannot encode ValueType::%s: %s' % (name, e))
        self.exec_s += time.time() - t
        obs = self.ex.obligations[n_ob:]
        self.functions.append(f.name)
        # the function must return normally for every input within the depth bound
        bad = z3.Or(z3.Not(g), *[og for _, og, _ in obs]) if obs else z3.Not(g)
        r, m, dt = self.check(bad)
        q = {'name': 'total:%s' % name, 'kind': 'no-panic/bound', 'result': str(r), 'seconds': dt}
        self.queries.append(q)
        if r != z3.unsat:
            what = [msg for k, og, msg in obs if m is not None and z3.is_true(m.eval(og, model_completion=True))]
            raise Inconclusive('ValueType::%s can panic or exceeds the depth bound: %s' % (name, what[:2]))
        self.impl[key] = v
        return v

    def check(self, formula):
        t = time.time()
        self.solver.push()
        self.solver.add(formula)
        r = self.solver.check()
        m = self.solver.model() if r == z3.sat else None
        smt2 = self.solver.to_smt2() if r == z3.unsat else None
        self.solver.pop()
        dt = time.time() - t
        self.solver_s += dt
        if r == z3.unknown:
            raise Inconclusive('z3 answered unknown')
        self._last_smt2 = smt2
        return r, m, round(dt, 3)

    # ------------------------------------------------------------------ queries
    def expect_unsat(self, qname, formula, describe, arity, fnames):
        """The property query: `formula` describes a violation; expect unsat."""
        r, m, dt = self.check(formula)
        q = {'name': qname, 'result': str(r), 'seconds': dt, 'statement': describe}
        self.queries.append(q)
        if r == z3.unsat:
            if qname not in self.cross and len(self.cross) < self.cross_budget:
                self.cross[qname] = cross_check_smt2('(set-logic ALL)\n' + self._last_smt2, 'unsat')
            return True
        ta = vtlib.from_model(m, self.a, self.kinds)
        tb = vtlib.from_model(m, self.b, self.kinds) if arity == 2 else None
        q['counterexample'] = {'a': vtlib.wire(ta), 'b': vtlib.wire(tb) if tb else None}
        self.violations.append({'query': qname, 'statement': describe, 'a': ta, 'b': tb, 'functions': fnames,
                                'model': m})
        return False

    cross_budget = 6

    # ------------------------------------------------------------------ native validation
    def native(self, lines):
        un = [f for f in PUB_UNARY]
        bi = [f for f in PUB_BINARY]
        replay.write_generated({'value_types': vtlib.gen_value_types_rs(self.edef, un, bi, self.kinds)})
        binary, _ = replay.build()
        rc, out, err = replay.run(binary, ['value-types'], stdin='\n'.join(lines) + '\n', timeout=600)
        if rc != 0:
            raise Inconclusive('native evaluation failed: ' + err[-400:])
        res = out.strip().split('\n')
        if len(res) != len(lines):
            raise Inconclusive('native evaluation returned %d answers for %d questions' % (len(res), len(lines)))
        return res

    def validate(self, unary, binary, n_unary, n_pairs):
        """Translation validation: the symbolic result terms, evaluated on concrete types, must equal the
        native results of the real functions."""
        rng = random.Random(seed() * 7919 + 17)
        lv = vtlib.corpus(self.kinds, min(self.depth, 3), rng, 400)
        allt = [t for l in lv for t in l]
        if not unary:
            us = []
        elif len(allt) <= n_unary:
            us = allt
        else:
            us = lv[0] + rng.sample([t for l in lv[1:] for t in l], max(0, n_unary - len(lv[0])))
        pool = lv[0] + [t for l in lv[1:] for t in l]
        pairs = []
        # related pairs are rare among random pairs: derive partners by small edits as well
        for _ in range(n_pairs):
            x = rng.choice(pool)
            if rng.random() < 0.5:
                y = mutate(x, self.kinds, rng, pool)
            else:
                y = rng.choice(pool)
            if vtlib.depth_of(x) <= self.depth and vtlib.depth_of(y) <= self.depth:
                pairs.append((x, y))
        lines, expect = [], []
        for f in unary:
            term = self.run(f, 1)
            for t in us:
                lines.append('%s %s' % (f, vtlib.wire(t)))
                expect.append((f, term, t, None))
        for f in binary:
            term = self.run(f, 2)
            for x, y in pairs:
                lines.append('%s %s %s' % (f, vtlib.wire(x), vtlib.wire(y)))
                expect.append((f, term, x, y))
        res = self.native(lines)
        asg_cache = {}
        mism = []
        interesting = 0
        for (f, term, x, y), r in zip(expect, res):
            key = (x, y)
            if key not in asg_cache:
                p = vtlib.assignment(self.a, x, self.kinds, [])
                if y is not None:
                    vtlib.assignment(self.b, y, self.kinds, p)
                asg_cache[key] = p
            sv = self.symbolic_to_str(vtlib.eval_concrete_any(term, asg_cache[key], self.universe))
            if f in SIGNED_RESULTS and sv.isdigit() and int(sv) >= (1 << 127):
                sv = str(int(sv) - (1 << 128))
            if sv != r:
                mism.append((f, vtlib.wire(x), vtlib.wire(y) if y else None, sv, r))
            if r not in ('false', '0', 'none'):
                interesting += 1
        if mism:
            raise Inconclusive('encoding disagrees with the native function on %d of %d cases, e.g. %r'
                               % (len(mism), len(expect), mism[:3]))
        self.validated += len(expect)
        self.validated_interesting = getattr(self, 'validated_interesting', 0) + interesting
        return len(expect)

    @staticmethod
    def symbolic_to_str(v):
        if isinstance(v, EnumV):       # Option<usize>
            d = z3.simplify(v.discr)
            if d.as_long() == 0:
                return 'none'
            return 'some %d' % z3.simplify(v.variants['Some'][0]).as_long()
        if z3.is_true(v):
            return 'true'
        if z3.is_false(v):
            return 'false'
        if z3.is_bv_value(v):
            return str(v.as_long())
        raise Inconclusive('symbolic result did not evaluate to a constant: %s' % str(v)[:80])

    # ------------------------------------------------------------------ replay of a counterexample
    def confirm(self, viol):
        """Re-evaluate the functions of a violated query natively on the counterexample types and
        compare with what the encoding says for the same model."""
        lines, meta = [], []
        for f, ar in viol['functions']:
            if f in PUB_UNARY and ar == 1:
                lines.append('%s %s' % (f, vtlib.wire(viol['a'])))
                meta.append((f, ar))
            elif f in PUB_BINARY and ar == 2:
                lines.append('%s %s %s' % (f, vtlib.wire(viol['a']), vtlib.wire(viol['b'])))
                meta.append((f, ar))
        out = {}
        if lines:
            res = self.native(lines)
            for (f, ar), r in zip(meta, res):
                sym = self.symbolic_to_str(vtlib.model_eval_any(viol['model'], self.run(f, ar)))
                if f in SIGNED_RESULTS and sym.isdigit() and int(sym) >= (1 << 127):
                    sym = str(int(sym) - (1 << 128))
                out[f] = {'native': r, 'encoding': sym}
                if sym != r:
                    raise Inconclusive('counterexample does not reproduce natively for %s: encoding %s, native %s'
                                       % (f, sym, r))
        return out


def mutate(t, kinds, rng, pool):
    """A near copy of concrete type t (one constructor, number or component changed)."""
    v, fs = t[0], list(t[1:])
    choice = rng.random()
    boxed = [k for k in kinds if 'box' in kinds[k]]
    if fs and choice < 0.4:
        i = rng.randrange(len(fs))
        k = kinds[v][i]
        if k == 'box':
            fs[i] = mutate(fs[i], kinds, rng, pool)
        elif k == 'usize':
            fs[i] = rng.choice([0, 1, 3, 8])
        elif k == 'id':
            fs[i] = rng.choice([1, 2])
        else:
            fs[i] = rng.choice([None, 1, 2])
        return (v,) + tuple(fs)
    if choice < 0.7 and 'box' in kinds[v]:
        # swap the constructor, keep the component
        inner = [f for f, k in zip(fs, kinds[v]) if k == 'box'][0]
        nv = rng.choice(boxed)
        nf = []
        for k in kinds[nv]:
            nf.append(inner if k == 'box' else (rng.choice([0, 3]) if k == 'usize' else (1 if k == 'id' else None)))
        return (nv,) + tuple(nf)
    if choice < 0.85:
        # wrap: t' = Ctor(t)
        nv = rng.choice(boxed)
        nf = []
        for k in kinds[nv]:
            nf.append(t if k == 'box' else (rng.choice([0, 3]) if k == 'usize' else (1 if k == 'id' else None)))
        return (nv,) + tuple(nf)
    if 'box' in kinds[v]:
        return [f for f, k in zip(fs, kinds[v]) if k == 'box'][0]     # unwrap
    return rng.choice(pool)


def replay_file(prop, path):
    """Native re-evaluation of a recorded counterexample: prints what the real functions return."""
    import json
    r = json.load(open(path))
    S = Session(prop, 1)
    lines, meta = [], []
    for f, ar in r.get('functions', []):
        if ar == 1 and f in PUB_UNARY:
            lines.append('%s %s' % (f, r['a']))
            meta.append(f)
        elif ar == 2 and f in PUB_BINARY:
            lines.append('%s %s %s' % (f, r['a'], r['b']))
            meta.append(f)
    res = S.native(lines) if lines else []
    for f, x in zip(meta, res):
        log('native %s(%s%s) = %s   [recorded: %s]' % (f, r['a'], (', ' + r['b']) if r.get('b') else '', x,
                                                     r.get('native_vs_encoding', {}).get(f, {}).get('native')))
    log('statement violated when recorded: %s' % r.get('statement'))
    same = all(x == r.get('native_vs_encoding', {}).get(f, {}).get('native') for f, x in zip(meta, res))
    if same and meta:
        log('VIOLATION property=%s replay=%s' % (prop, path))
        return 1
    return 0
