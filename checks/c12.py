"""C12 (export step): `expander::export` / `extract_public` decide what an importing module sees.  For a
symbolic declaration (any kind, any flag set, opaque payload) the solver decides that exactly the `pub`
constants, functions, function heads and structures are exported, functions as heads (bodies dropped),
with the `pub` flag cleared and every other part identical, and that nothing exported is exported again."""
import os
import time
import z3

from common import REPO, log, mir_dump, write_evidence, write_replay, known_keys, Inconclusive, cross_check_smt2
import replay
from mirparse import MirDump
from rustdefs import RustDefs
from mirsym import Executor, State, ValRef, EnumV, Opaque, Unsupported, bv, zand, zor, znot

PROP = 'C12'
EXPORTED = {'Constant': 'Constant', 'Function': 'FunctionHead', 'FunctionHead': 'FunctionHead', 'Structure': 'Structure'}


def native(lines):
    replay.write_generated({})
    binary, _ = replay.build()
    rc, out, err = replay.run(binary, ['export-eval'], stdin='\n'.join(lines) + '\n')
    if rc != 0:
        raise Inconclusive('native export evaluation failed: ' + err[-300:])
    res = out.strip().split('\n')
    if len(res) != len(lines):
        raise Inconclusive('native export evaluation: %d answers for %d requests' % (len(res), len(lines)))
    return res


def run(tier):
    t0 = time.time()
    path, dump_s = mir_dump()
    dump = MirDump(path)
    defs = RustDefs(os.path.join(REPO, 'src'))
    edef = defs.find_enum('alpha::common::Declaration')
    fdef = defs.find_enum('alpha::common::DeclarationFlag')
    if edef is None or fdef is None:
        raise Inconclusive('Declaration / DeclarationFlag not found in the source')
    kinds = [v[0] for v in edef.variants]
    if sorted(kinds) != sorted(list(EXPORTED) + ['Import', 'Poison']):
        raise Inconclusive('Declaration has variants %s; the export specification knows %s' % (kinds, sorted(EXPORTED)))
    pub_bit = 1 << fdef.variant_by_name('Public')[1]
    queries, violations = [], []
    solver_s = exec_s = 0.0
    stats_blocks = 0
    models = {}

    def new_ex():
        ex = Executor(dump, defs)
        ex.abstract_types = {'Identifier': 16, 'EnumSet': 8}
        return ex

    def export_of(ex, decl):
        try:
            return ex.call_function(dump.get('export'), [ValRef(decl)], z3.BoolVal(True), State())
        except (Unsupported, KeyError) as e:
            raise Inconclusive('cannot encode expander::export: %s' % e)

    def flags_of(edef_, v, variant):
        names = [n for n, _ in edef_.variant_by_name(variant)[2]]
        return v.variants[variant][names.index('flags')]

    def enc_of(m, is_some, res, r2):
        """What the encoding predicts `pv_replay export-eval` prints for model m."""
        if not z3.is_true(m.eval(is_some, model_completion=True)):
            return 'none'
        d2 = m.eval(res.discr, model_completion=True).as_long()
        k2 = edef.variant_by_discr(d2)[1]
        names = [n for n, _ in edef.variant_by_name(k2)[2]]
        fo = m.eval(res.variants[k2][names.index('flags')], model_completion=True).as_long() if 'flags' in names else 0
        re2 = 'some' if z3.is_true(m.eval(r2.discr == bv(1, 64), model_completion=True)) else 'none'
        return '%s %d reexport=%s' % (k2, fo, re2)

    pending = []

    def ask(ex, qname, formula, text, decl):
        nonlocal solver_s
        s = z3.Solver()
        s.add(*ex.assumptions)
        s.add(formula)
        t = time.time()
        r = s.check()
        dt = time.time() - t
        solver_s += dt
        if r == z3.unknown:
            raise Inconclusive('z3 answered unknown on %s' % qname)
        q = {'name': qname, 'result': str(r), 'seconds': round(dt, 3), 'statement': text}
        queries.append(q)
        if r == z3.sat:
            m = s.model()
            d = m.eval(decl.discr, model_completion=True).as_long()
            kind = edef.variant_by_discr(d)[1]
            fl = 0
            if kind in EXPORTED:
                fl = m.eval(flags_of(edef, decl, kind), model_completion=True).as_long() & 31
            line = '%s %d' % (kind, fl)
            got = native([line])[0]
            q['counterexample'] = {'request': line, 'native': got}
            pending.append((qname, text, line, got, m))
        elif len(queries) <= 4:
            q['cross_check'] = cross_check_smt2('(set-logic ALL)\n' + s.to_smt2(), 'unsat')

    # ---- fully symbolic declaration: which declarations are exported, with which flags
    ex = new_ex()
    decl = ex.fresh_value('alpha::common::Declaration', 'd', depth=0, expand=lambda b: b == 'Declaration')
    t = time.time()
    g, r = export_of(ex, decl)
    exec_s += time.time() - t
    is_some = r.discr == bv(1, 64)
    flags_in = None
    pub_kind = []
    for k in EXPORTED:
        f = flags_of(edef, decl, k)
        if flags_in is None:
            flags_in = f
        pub_kind.append(zand(decl.discr == bv(edef.variant_by_name(k)[1], 64), (f & bv(pub_bit, 8)) != bv(0, 8)))
    should = zor(*pub_kind)
    obs = [og for _, og, _ in ex.obligations]
    ask(ex, 'export-total', zor(znot(g), *obs), 'export never panics', decl)
    ask(ex, 'exports-exactly-pub', zand(g, is_some != should),
        'a declaration is exported iff it is a pub constant, function, function head or structure', decl)
    res = r.variants['Some'][0]
    if 'Function' in res.variants:
        ask(ex, 'no-body-exported', zand(g, is_some, res.discr == bv(edef.variant_by_name('Function')[1], 64)),
            'a function is exported as a function head: its body never leaves the module', decl)
    kind_ok, flags_ok = [], []
    for k, k2 in EXPORTED.items():
        src = decl.discr == bv(edef.variant_by_name(k)[1], 64)
        kind_ok.append(z3.Implies(src, res.discr == bv(edef.variant_by_name(k2)[1], 64)))
    for k2 in set(EXPORTED.values()):
        if k2 in res.variants:
            fo = flags_of(edef, res, k2)
            flags_ok.append(z3.Implies(res.discr == bv(edef.variant_by_name(k2)[1], 64),
                                       fo == (flags_in & ~bv(pub_bit, 8))))
    ask(ex, 'exported-kind', zand(g, is_some, znot(zand(*kind_ok))), 'constants and structures keep their kind, functions become heads', decl)
    ask(ex, 'pub-cleared', zand(g, is_some, znot(zand(*flags_ok))), 'the exported flags are the original flags without pub', decl)
    # nothing exported is exported again
    t = time.time()
    g2, r2 = export_of(ex, res)
    exec_s += time.time() - t
    ask(ex, 'no-reexport', zand(g, is_some, g2, r2.discr == bv(1, 64)), 'an imported declaration is never re-exported', decl)
    stats_blocks += int(ex.stats['blocks'])
    models.update(ex.used_models)
    for qname, text, line, got, m in pending:
        enc = enc_of(m, is_some, res, r2)
        gp = got.split()
        got_n = got if got == 'none' else '%s %s %s' % (gp[0], gp[1], gp[3])
        if got_n != enc:
            raise Inconclusive('counterexample "%s" of %s does not reproduce natively: native "%s", encoding "%s"'
                               % (line, qname, got, enc))
        violations.append((qname, text, line, got))

    # ---- per kind: every other part of the declaration is passed on unchanged (clone = identity on values)
    for k, k2 in EXPORTED.items():
        exk = new_ex()
        dk = exk.fresh_value('alpha::common::Declaration', 'd', depth=0, expand=lambda b: b == 'Declaration')
        dv = edef.variant_by_name(k)[1]
        exk.assume(dk.discr == bv(dv, 64))
        exk.base_dom[dk.discr.decl().name()] = frozenset([dv])
        t = time.time()
        gk, rk = export_of(exk, dk)
        exec_s += time.time() - t
        out = rk.variants['Some'][0]
        if list(out.variants) != [k2]:
            violations.append(('payload:%s' % k, 'exported value has variants %s' % list(out.variants), '%s 1' % k, native(['%s 1' % k])[0]))
            continue
        in_names = [n for n, _ in edef.variant_by_name(k)[2]]
        out_names = [n for n, _ in edef.variant_by_name(k2)[2]]
        diff = []
        for n in out_names:
            if n == 'flags':
                continue
            a, b = dk.variants[k][in_names.index(n)], out.variants[k2][out_names.index(n)]
            same = (a is b) or (isinstance(a, z3.ExprRef) and isinstance(b, z3.ExprRef) and a.eq(b))
            if not same:
                diff.append(n)
        queries.append({'name': 'payload-unchanged:%s' % k, 'result': 'unsat' if not diff else 'sat',
                        'statement': 'fields %s of an exported %s are the original values' % ([n for n in out_names if n != 'flags'], k),
                        'seconds': 0.0, 'method': 'identity of the symbolic values after symbolic execution'})
        if diff:
            violations.append(('payload-unchanged:%s' % k, 'fields %s of an exported %s are not the original values' % (diff, k),
                               '%s 1' % k, native(['%s 1' % k])[0]))
        stats_blocks += int(exk.stats['blocks'])

    # ---- exhaustive native validation of the encoding: every kind x every flag set
    lines = ['%s %d' % (k, fl) for k in kinds for fl in range(32)]
    res_n = native(lines)
    s2 = z3.Solver()
    s2.add(*ex.assumptions)
    bad = []
    for line, got in zip(lines, res_n):
        k, fl = line.split()
        s2.push()
        s2.add(decl.discr == bv(edef.variant_by_name(k)[1], 64))
        if k in EXPORTED:
            s2.add(flags_of(edef, decl, k) == bv(int(fl), 8))
        assert s2.check() == z3.sat
        m = s2.model()
        s2.pop()
        enc = enc_of(m, is_some, res, r2)
        gp = got.split()
        got_n = got if got == 'none' else '%s %s %s' % (gp[0], gp[1], gp[3])
        if got_n != enc:
            bad.append((line, enc, got))
    if bad:
        raise Inconclusive('export encoding disagrees with the native function: %r' % bad[:3])

    # import path resolution (get_key_offset)
    import importcheck
    imp_pending, imp_unconfirmed = [], []
    imp_used, imp_exec, imp_solver, imp_models, imp_fns = importcheck.run(dump, defs, tier, queries, imp_pending, imp_unconfirmed)
    if imp_unconfirmed and not (imp_pending or violations):
        raise Inconclusive('; '.join(imp_unconfirmed[:3]))
    exec_s += imp_exec
    solver_s += imp_solver
    for k_, v_ in imp_models.items():
        models[k_] = models.get(k_, 0) + v_

    known = known_keys(PROP)
    out_v = []
    for qname, text, line, got in imp_pending:
        key = '%s:%s' % (qname, line)
        what = '%s fails for [%s]: native get_key_offset gives %s (%s)' % (qname, line, got, text)
        if key in known:
            log('KNOWN-FINDING: property=%s %s' % (PROP, what))
            continue
        rp = write_replay(PROP, key, {'property': PROP, 'query': qname, 'statement': text, 'request': line, 'native': got, 'tool': 'keyoffset-eval',
                                      'how': 'echo "%s" | pv_replay keyoffset-eval' % line})
        out_v.append((what, rp))
    for qname, text, line, got in violations:
        key = '%s:%s' % (qname, line)
        what = '%s fails for declaration "%s": native export gives "%s" (%s)' % (qname, line, got, text)
        if key in known:
            log('KNOWN-FINDING: property=%s %s' % (PROP, what))
            continue
        rp = write_replay(PROP, key, {'property': PROP, 'query': qname, 'statement': text, 'request': line, 'native': got,
                                      'how': 'echo "%s" | pv_replay export-eval' % line})
        out_v.append((what, rp))
    wall = time.time() - t0
    cov = {
        'states': len(queries), 'transitions': max(1, stats_blocks), 'traces_validated_against_impl': len(lines) + imp_used,
        'samples': queries[:8], 'exhaustive': True,
        'explanation': 'expander::export and extract_public symbolically executed from MIR on a symbolic Declaration '
                       '(6 kinds x 8-bit flag set x opaque payload); EnumSet is modelled as a bit set; payload identity is read '
                       'off the symbolic result per kind; the encoding is validated natively on all 6 x 32 kind/flag combinations.  '
                       'Import resolution: expander::get_key_offset on symbolic paths (<= 3 normalised components, relative or absolute) and '
                       'up to %d symbolic module keys, with a component-sequence model of std::path validated natively on random paths.' % (3 if tier == 'quick' else 4),
        'functions_encoded': ['export', 'extract_public', 'export::{closure#0..3}'] + sorted(set(imp_fns)),
        'bounds': 'export: none needed (loop-free); Vec/String/expression payloads are opaque values that are only moved or cloned.  get_key_offset: paths of at most 3 components, %d keys' % (3 if tier == 'quick' else 4),
        'vacuity_witnesses_sat': len([q for q in queries if q.get('expected') == 'sat']),
        'queries_discharged': len(queries), 'queries_unsat': len([q for q in queries if q['result'] == 'unsat']),
        'solver_time_s': round(solver_s, 3), 'symbolic_execution_s': round(exec_s, 3), 'mir_dump_s': round(dump_s, 2),
        'std_models_used': {k: int(v) for k, v in models.items()},
        'outside_claim': ['expand(): splice order, HashSet iteration, which declarations are spliced where', 'paths with `.`/`..`, prefixes or trailing separators',
                          'multi-file behaviour of compiled programs'],
    }
    write_evidence(PROP, tier, 'model_checking', cov, wall,
                   ['rustc nightly MIR dump', 'mirsym and its models (EnumSet as bit set, Clone as identity, Option::map)',
                    'native validation through the guarded hook expander::verif_hooks::export'], violations=len(out_v))
    log('%s: %d queries (%d unsat, %d witnesses sat as required), %d native comparisons, wall %.1fs'
        % (PROP, len(queries), cov['queries_unsat'], cov['vacuity_witnesses_sat'], len(lines) + imp_used, wall))
    for what, rp in out_v:
        log('VIOLATION property=%s replay=%s' % (PROP, rp))
        log('  ' + what)
    return 1 if out_v else 0


def replay_file(path):
    import json
    r = json.load(open(path))
    if r.get('tool') == 'keyoffset-eval':
        import importcheck
        got = importcheck.native([r['request']])[0]
    else:
        got = native([r['request']])[0]
    log('native answer for "%s": %s (recorded: %s)' % (r['request'], got, r['native']))
    if got == r['native']:
        log('VIOLATION property=%s replay=%s' % (PROP, path))
        return 1
    return 0
