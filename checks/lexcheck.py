"""Second-generation lexer vs. reference lexer, decided by the solver for all byte strings of a template.

A template is a list of bytes, each concrete or symbolic; the source length L is symbolic between
`min_len` and len(template).  Both `delta::lexer::lex_source_into_buffer` (from /repo's MIR) and the
reference `reflex::lex` (from /verif/reflex's MIR) are symbolically executed on the same bytes; the
queries ask for an input on which they differ in token count, kind, value type, payload, span, line
bookkeeping or error list, or on which the real lexer panics / exceeds a loop bound.
"""
import os
import re
import subprocess
import time
import z3

from common import REPO, VERIF, log, mir_dump, reflex_dump, Inconclusive, seed
import replay
from mirparse import MirDump
from rustdefs import RustDefs
from mirsym import (Executor, State, SliceRef, MutSliceRef, PlaceRef, Agg, Model, EnumV, Unsupported, bv, zand,
                    zor, znot, zsimp, select)
import mirmodels

SYM = None      # marker for a symbolic byte in a template


class LexSession:
    def __init__(self):
        self.t0 = time.time()
        path, self.dump_s = mir_dump()
        self.dump = MirDump(path)
        self.defs = RustDefs(os.path.join(REPO, 'src'))
        self.rdump = MirDump(reflex_dump())
        self.rdefs = RustDefs(os.path.join(VERIF, 'reflex', 'src'))
        self.check_numbering()
        self.queries = []
        self.solver_s = 0.0
        self.exec_s = 0.0
        self.stats = {'blocks': 0, 'loop_iterations': 0, 'obligations': 0}
        self.models_used = {}
        self.functions = set()

    def check_numbering(self):
        """The reference numbers kinds like the enums of the current source; verify, do not assume."""
        src = open(os.path.join(VERIF, 'reflex', 'src', 'lib.rs')).read()
        def consts(mod):
            m = re.search(r'pub mod %s \{(.*?)\n\}' % mod, src, re.S)
            return {k: int(v) for k, v in re.findall(r'pub const ([A-Z0-9_]+): u8 = (\d+);', m.group(1))}
        def camel(s):
            return ''.join(w.capitalize() for w in s.lower().split('_'))
        bt = self.defs.find_enum('delta::lexer::BaseToken')
        vk = self.defs.find_enum('delta::lexer::ValueTypeKeyword')
        le = self.defs.find_enum('alpha::lexer::Error')
        if not (bt and vk and le):
            raise Inconclusive('lexer enums not found in the current source')
        special = {'IsGe': 'IsGE', 'IsLe': 'IsLE'}
        for name, val in consts('kind').items():
            vn = special.get(camel(name), camel(name))
            try:
                d = bt.variant_by_name(vn)[1]
            except KeyError:
                raise Inconclusive('BaseToken::%s no longer exists' % vn)
            if d != val:
                raise Inconclusive('BaseToken::%s = %d but the reference assumes %d' % (vn, d, val))
        if len(bt.variants) != len(consts('kind')):
            raise Inconclusive('BaseToken has %d variants, the reference knows %d' % (len(bt.variants), len(consts('kind'))))
        vmap = {'NONE': 'NoKeyword', 'VOID': 'Void', 'I8': 'Int8', 'I16': 'Int16', 'I32': 'Int32', 'I64': 'Int64',
                'I128': 'Int128', 'U8': 'Uint8', 'U16': 'Uint16', 'U32': 'Uint32', 'U64': 'Uint64', 'U128': 'Uint128',
                'USIZE': 'Usize', 'CHAR8': 'Char8', 'BOOL': 'Bool'}
        for name, val in consts('vt').items():
            if vk.variant_by_name(vmap[name])[1] != val:
                raise Inconclusive('ValueTypeKeyword::%s renumbered' % vmap[name])
        for name, val in consts('err').items():
            if le.variant_by_name(camel(name))[1] != val:
                raise Inconclusive('lexer::Error::%s renumbered' % camel(name))
        self.err_names = {d: n for n, d, _ in le.variants}

    # ------------------------------------------------------------------ symbolic runs
    def run_template(self, name, template, min_len=1, loop_slack=3):
        n = len(template)
        K = n + 3
        src = [z3.BitVec('x%d' % i, 8) if b is SYM else bv(b, 8) for i, b in enumerate(template)]
        L = z3.BitVec('L', 64)
        pre = zand(z3.UGE(L, bv(min_len, 64)), z3.ULE(L, bv(n, 64)))
        t = time.time()
        self.L_bounds = (min_len, n)
        impl = self._run_impl(src, L, pre, K, n + loop_slack)
        ref = self._run_ref(src, L, pre, n + loop_slack)
        self.exec_s += time.time() - t
        return {'name': name, 'template': template, 'src': src, 'L': L, 'pre': pre, 'K': K, 'impl': impl, 'ref': ref,
                'min_len': min_len}

    def _account(self, ex):
        self.stats['blocks'] += int(ex.stats['blocks'])
        self.stats['loop_iterations'] += int(ex.stats['loop_iterations'])
        self.stats['obligations'] += len(ex.obligations)
        for k, v in ex.used_models.items():
            self.models_used[k] = self.models_used.get(k, 0) + v
        self.functions.update(ex.inlined)

    def _run_impl(self, src, L, pre, K, loop_bound):
        ex = Executor(self.dump, self.defs, loop_bound=loop_bound)
        ex.assume(pre)
        ex.var_bounds['L'] = self.L_bounds
        f = self.dump.get('lex_source_into_buffer')
        st = State()
        F = 0
        for c in ('tok', 'vap', 'loc'):
            st.mem[(F, c)] = Agg([None] * K, 'array')
        items = [None] * (K + 1)
        items[0] = bv((1 << 128) - 1, 128)
        st.mem[(F, 'pay')] = Model('vec', items=Agg(items, 'vecitems'), len=bv(1, 64), cap=bv(1024, 64))
        ecap = z3.If(z3.ULT(L, bv(100, 64)), L, bv(100, 64))
        st.mem[(F, 'err')] = mirmodels.new_vec(K, bv(0, 64), ecap)
        st.mem[(F, 'buf')] = Agg([bv(0, 64), MutSliceRef((F, 'tok'), (), bv(K, 64)),
                                  MutSliceRef((F, 'vap'), (), bv(K, 64)), MutSliceRef((F, 'loc'), (), bv(K, 64)),
                                  PlaceRef((F, 'pay')), PlaceRef((F, 'err'))], 'TokensBuffer')
        try:
            g, ret = ex.call_function(f, [SliceRef(src, bv(0, 64), L), PlaceRef((F, 'buf'))], z3.BoolVal(True), st)
        except Unsupported as e:
            raise Inconclusive('cannot encode the lexer: %s' % e)
        self._account(ex)
        out = {'guard': g, 'ret': ret, 'n': st.mem[(F, 'buf')].fields[0], 'ex': ex,
               'tok': st.mem[(F, 'tok')].fields, 'vap': st.mem[(F, 'vap')].fields, 'loc': st.mem[(F, 'loc')].fields,
               'pay': st.mem[(F, 'pay')], 'err': st.mem[(F, 'err')], 'K': K}
        return out

    def _run_ref(self, src, L, pre, loop_bound):
        ex = Executor(self.rdump, self.rdefs, loop_bound=loop_bound)
        ex.assume(pre)
        ex.var_bounds['L'] = self.L_bounds
        f = self.rdump.get('lex')
        try:
            g, v = ex.call_function(f, [SliceRef(src, bv(0, 64), L)], z3.BoolVal(True), State())
        except Unsupported as e:
            raise Inconclusive('cannot encode the reference lexer: %s' % e)
        self._account(ex)
        ntok, toks, nerr, errs, full = v.fields
        return {'guard': g, 'n': ntok, 'toks': toks.fields, 'nerr': nerr, 'errs': errs.fields, 'full': full, 'ex': ex}

    # ------------------------------------------------------------------ observation terms
    @staticmethod
    def impl_token(impl, k):
        """(kind8, vt8, has_payload, payload128, start, end, sol, line) of token slot k, or None if never written."""
        tk = impl['tok'][k]
        if tk is None:
            return None
        kind = z3.Extract(7, 0, tk.discr)
        vap = impl['vap'][k].fields[0]
        vt = z3.Extract(7, 0, vap)
        pid = z3.LShR(vap, bv(8, 32))
        hasp = pid != bv(0, 32)
        items = [x if x is not None else bv(0, 128) for x in impl['pay'].f['items'].fields]
        payload = select(items, z3.ZeroExt(32, pid))
        loc = impl['loc'][k].fields
        return (kind, vt, hasp, payload, loc[0], loc[1], loc[2], loc[3])

    @staticmethod
    def ref_token(ref, k):
        t = ref['toks'][k].fields
        # kind, vt, has_payload, payload, start, end, line_start, line
        return (t[0], t[1], t[2], t[3], t[4], t[5], t[6], t[7])

    def difference_queries(self, run):
        """List of (name, formula): each formula is satisfiable iff the lexers differ in that respect."""
        impl, ref, K = run['impl'], run['ref'], run['K']
        qs = []
        n_i, n_r = impl['n'], ref['n']
        ok_ret = impl['ret'].discr == bv(0, 64)
        qs.append(('returns-ok', znot(zand(impl['guard'], ok_ret))))
        qs.append(('reference-in-range', zor(znot(ref['guard']), ref['full'])))
        qs.append(('token-count', n_i != n_r))
        fields = ['kind', 'value-type', 'has-payload', 'payload', 'span-start', 'span-end', 'line-start', 'line-number']
        per_field = {f: [] for f in fields}
        for k in range(min(K, len(ref['toks']))):
            it = self.impl_token(impl, k)
            live = z3.ULT(bv(k, 64), n_r)
            if it is None:
                qs.append(('slot-%d-unwritten' % k, zand(live, n_i == n_r)))
                continue
            rt = self.ref_token(ref, k)
            for fi, fname in enumerate(fields):
                a, b = it[fi], rt[fi]
                if fname == 'payload':
                    diff = zand(it[2], a != b)
                else:
                    diff = a != b
                per_field[fname].append(zand(live, n_i == n_r, diff))
        nsym = sum(1 for b in run['template'] if b is SYM)
        for fname in fields:
            if nsym >= 6:
                # one query per token slot: the same disjunction, decided piecewise (and faster)
                for k, d in enumerate(per_field[fname]):
                    qs.append(('token-%s[%d]' % (fname, k), d))
            else:
                qs.append(('token-' + fname, zor(*per_field[fname])))
        # error lists
        ev = impl['err']
        ne_i = ev.f['len']
        qs.append(('error-count', ne_i != ref['nerr']))
        ediff = []
        for e, item in enumerate(ev.f['items'].fields):
            if e >= len(ref['errs']):
                break
            live = z3.ULT(bv(e, 64), ref['nerr'])
            if item is None:
                ediff.append(zand(live, ne_i == ref['nerr']))
                continue
            kind_i = z3.Extract(7, 0, item.fields[0].discr)
            tok_i = item.fields[1].fields[0]
            r = ref['errs'][e].fields
            ediff.append(zand(live, ne_i == ref['nerr'], zor(kind_i != r[0], tok_i != r[1])))
        qs.append(('error-list', zor(*ediff)))
        return qs

    def obligation_queries(self, run):
        qs = []
        for side in ('impl', 'ref'):
            ex = run[side]['ex']
            by_kind = {}
            for kind, g, msg in ex.obligations:
                by_kind.setdefault(kind, []).append((g, msg))
            for kind, lst in sorted(by_kind.items()):
                qs.append(('%s-no-%s' % (side, kind), zor(*[g for g, _ in lst]), lst))
        return qs

    # ------------------------------------------------------------------ solving
    def solve(self, run, name, formula, timeout_s=1800):
        s = z3.Solver()
        s.set('timeout', timeout_s * 1000)
        s.add(run['pre'])
        s.add(formula)
        t = time.time()
        r = s.check()
        dt = time.time() - t
        self.solver_s += dt
        q = {'template': run['name'], 'name': name, 'result': str(r), 'seconds': round(dt, 2)}
        self.queries.append(q)
        if r == z3.unknown:
            raise Inconclusive('z3 gave up on query %s/%s after %.0fs' % (run['name'], name, dt))
        if r == z3.sat:
            m = s.model()
            ln = m.eval(run['L'], model_completion=True).as_long()
            data = bytes(m.eval(x, model_completion=True).as_long() for x in run['src'][:ln])
            q['counterexample'] = data.hex()
            return data, m, s
        return None, None, s


REPLAY_BIN = [None]


def replay_binary():
    if REPLAY_BIN[0] is None:
        replay.write_generated({})
        REPLAY_BIN[0] = replay.build()[0]
    return REPLAY_BIN[0]


def native_lexdiff(inputs):
    """inputs: list of bytes. Returns list of 'same' / 'DIFF ...' / 'PANIC'."""
    binary = replay_binary()
    rc, out, err = replay.run(binary, ['lexdiff', '--hex'], stdin=''.join(b.hex() + '\n' for b in inputs), timeout=600)
    if rc != 0:
        raise Inconclusive('native lexdiff failed: ' + err[-300:])
    res = out.strip().split('\n') if out.strip() else []
    if len(res) != len(inputs):
        raise Inconclusive('native lexdiff returned %d answers for %d inputs' % (len(res), len(inputs)))
    return res


CODE_OF = {3: 110, 4: 140, 5: 141, 6: 162, 7: 161, 8: 160, 9: 163, 0: 102, 1: 103, 2: 101}


def native_obs(inputs):
    binary = replay_binary()
    rc, out, err = replay.run(binary, ['lexobs'], stdin=''.join(b.hex() + '\n' for b in inputs), timeout=600)
    if rc != 0:
        raise Inconclusive('native lexobs failed: ' + err[-300:])
    lines = out.strip().split('\n')
    if len(lines) != 2 * len(inputs):
        raise Inconclusive('native lexobs returned %d lines for %d inputs' % (len(lines), len(inputs)))
    return [(lines[2 * i], lines[2 * i + 1]) for i in range(len(inputs))]


def _canon(prefix, n, toks, codes):
    s = '%s %d' % (prefix, n)
    for t in toks:
        s += ' %d:%d:%s:%d:%d:%d:%d' % t
    return s + ' E[%s]' % ', '.join(str(c) for c in codes)


def validate_encodings(S, run, samples):
    """Both encodings, evaluated on concrete inputs, must reproduce the native observations."""
    nat = native_obs(samples)
    impl, ref = run['impl'], run['ref']
    s = z3.Solver()
    s.add(run['pre'])
    bad = []
    for data, (real_line, ref_line) in zip(samples, nat):
        if real_line == 'REAL PANIC':
            continue        # left to the solver's no-panic query, which reports it with a replayed witness
        s.push()
        for i, x in enumerate(run['src']):
            if i < len(data):
                s.add(x == bv(data[i], 8))
        s.add(run['L'] == bv(len(data), 64))
        if s.check() != z3.sat:
            s.pop()
            raise Inconclusive('sample %r does not fit template %s' % (data, run['name']))
        m = s.model()
        s.pop()

        def ev(t):
            v = m.eval(t, model_completion=True)
            if z3.is_true(v):
                return 1
            if z3.is_false(v):
                return 0
            return v.as_long()
        n = ev(impl['n'])
        toks = []
        for k in range(n):
            it = S.impl_token(impl, k)
            kind, vt, hp, pay, st_, en, sol, line = [ev(x) for x in it]
            toks.append((kind, vt, str(pay) if hp else 'none', st_, en, line, st_ - sol))
        ne = ev(impl['err'].f['len'])
        codes = []
        for e in range(ne):
            item = impl['err'].f['items'].fields[e]
            codes.append(CODE_OF[ev(item.fields[0].discr)])
        got = _canon('REAL', n, toks, codes)
        if got != real_line:
            bad.append(('impl', data, got, real_line))
        n = ev(ref['n'])
        toks = []
        for k in range(n):
            kind, vt, hp, pay, st_, en, ls, line = [ev(x) for x in S.ref_token(ref, k)]
            toks.append((kind, vt, str(pay) if hp else 'none', st_, en, line, st_ - ls))
        codes = [CODE_OF[ev(ref['errs'][e].fields[0])] for e in range(ev(ref['nerr']))]
        got = _canon('REF', n, toks, codes)
        if got != ref_line:
            bad.append(('ref', data, got, ref_line))
    if bad:
        raise Inconclusive('encoding does not reproduce the native lexer on %d samples, e.g. %r' % (len(bad), bad[0]))
    return len(samples) * 2


def sample_inputs(template, count, rng, min_len=1):
    """Concrete inputs that fit the template: corpus windows and random lexically interesting bytes."""
    n = len(template)
    nsym = sum(1 for b in template if b is SYM)
    alphabet = b" \t\r\n(){}[]<>|&^!_+-*/%:;.,='\"\\0123456789abcdefxuibnrt{}ABCDEFGZz@#$~`?\x00\x7f\x80\xc3\xff"
    corpus = []
    if nsym == n:
        for root in ('tests/samples/valid', 'tests/samples/invalid', 'examples'):
            d = os.path.join(REPO, root)
            for f in sorted(os.listdir(d))[:60]:
                if f.endswith('.pn'):
                    data = open(os.path.join(d, f), 'rb').read()
                    for _ in range(3):
                        if len(data) > n:
                            i = rng.randrange(len(data) - n)
                            corpus.append(data[i:i + rng.randint(min_len, n)])
    out = []
    while len(out) < count:
        if corpus and rng.random() < 0.5:
            out.append(rng.choice(corpus))
            continue
        ln = rng.randint(min_len, n)
        b = bytearray()
        for i in range(ln):
            if template[i] is SYM:
                b.append(rng.choice(alphabet) if rng.random() < 0.9 else rng.randrange(256))
            else:
                b.append(template[i])
        out.append(bytes(b))
    return out


def _process_template(args):
    """Worker: one template, all selected queries.  Returns plain data."""
    prop, tname, template, min_len, want_names, n_samples, known, seed_ = args
    import random
    S = LexSession()
    rng = random.Random(seed_)
    res = {'name': tname, 'violations': [], 'known_hits': [], 'validated': 0, 'error': None}
    try:
        run = S.run_template(tname, template, min_len)
        res['validated'] = validate_encodings(S, run, sample_inputs(template, n_samples, rng, min_len))
        qs = [(qn, f, None) for qn, f in S.difference_queries(run)] + S.obligation_queries(run)
        for qn, formula, detail in qs:
            if not _wanted(want_names, qn):
                continue
            blocked = []
            while True:
                f2 = zand(formula, *blocked) if blocked else formula
                data, m, s = S.solve(run, qn, f2)
                if data is None:
                    break
                nat = native_lexdiff([data])[0]
                what = '%s on input %r (template %s): %s' % (qn, data, tname, nat)
                if nat == 'same':
                    raise Inconclusive('counterexample %r for %s does not reproduce natively' % (data, qn))
                key = '%s:%s' % (qn, data.hex())
                if key in known:
                    res['known_hits'].append(what)
                    blocked.append(z3.Or(*[x != bv(c, 8) for x, c in zip(run['src'], data)],
                                         run['L'] != bv(len(data), 64)))
                    continue
                res['violations'].append({'what': what, 'query': qn, 'template': tname, 'input_hex': data.hex(),
                                          'input_repr': repr(data), 'native': nat})
                break
    except Inconclusive as e:
        res['error'] = str(e)
    res['queries'] = S.queries
    res['stats'] = S.stats
    res['models_used'] = S.models_used
    res['functions'] = sorted(S.functions)
    res['solver_s'] = S.solver_s
    res['exec_s'] = S.exec_s
    res['dump_s'] = S.dump_s
    return res


def _process_entry(args):
    """Worker: the public entry point `delta::lexer::lex` (Tokens::empty, buffer, set_tokens_len and the lexer)
    on one template, from the MIR of the crate built with the small-buffer hook.  All obligations must be unsat:
    panics/asserts, Vec::set_len within capacity and over written slots only, loop and model bounds."""
    prop, tname, template, min_len, known = args
    res = {'name': 'entry:' + tname, 'violations': [], 'known_hits': [], 'validated': 0, 'error': None, 'queries': [],
           'stats': {'blocks': 0, 'loop_iterations': 0, 'obligations': 0}, 'models_used': {}, 'functions': [],
           'solver_s': 0.0, 'exec_s': 0.0, 'dump_s': 0.0}
    try:
        path, _ = mir_dump('verif_small_buffers')
        dump = MirDump(path)
        defs = RustDefs(os.path.join(REPO, 'src'))
        n = len(template)
        ex = Executor(dump, defs, loop_bound=n + 3)
        ex.memo_pure = False          # Tokens::empty allocates: calls are not pure in the heap model
        src = [z3.BitVec('x%d' % i, 8) if b is SYM else bv(b, 8) for i, b in enumerate(template)]
        L = z3.BitVec('L', 64)
        pre = zand(z3.UGE(L, bv(min_len, 64)), z3.ULE(L, bv(n, 64)))
        ex.assume(pre)
        ex.var_bounds['L'] = (min_len, n)
        t = time.time()
        try:
            outs = ex.call_function_multi(dump.get('delta::lexer::lex'),
                                          [SliceRef(src, bv(0, 64), L), SliceRef([bv(97, 8)], bv(0, 64), bv(1, 64))],
                                          z3.BoolVal(True), State())
        except (Unsupported, KeyError) as e:
            raise Inconclusive('cannot encode delta::lexer::lex: %s' % e)
        g = zor(*[o[0] for o in outs])
        posts = []
        # post-condition on the returned Tokens: the stream ends with two EndOfSource tokens, or it is the
        # one-error stream of Tokens::empty_with_one_error (E101-E103)
        sdef = defs.find_struct('delta::lexer::tokens::Tokens')
        fnames = [f for f, _ in sdef.fields]
        bt = defs.find_enum('delta::lexer::BaseToken')
        d_eos, d_err = bt.variant_by_name('EndOfSource')[1], bt.variant_by_name('Error')[1]
        for g_o, toks, st in outs:
            tv = toks.fields[fnames.index('tokens')]
            ev = toks.fields[fnames.index('errors')]
            slots = st.mem[tv.f['store']].fields
            nt = tv.f['len']
            filler = [x for x in slots if x is not None]
            if not filler:
                posts.append(g_o)
                continue
            kinds = [(x if x is not None else filler[0]).discr for x in slots]

            def at(i):
                r = bv(-1, 64)
                for k_, kd in enumerate(kinds):
                    r = z3.If(i == bv(k_, 64), kd, r)
                return r
            last = at(nt - bv(1, 64))
            prev = at(nt - bv(2, 64))
            ok_stream = zand(z3.UGE(nt, bv(2, 64)), last == bv(d_eos, 64), prev == bv(d_eos, 64))
            ok_single = zand(nt == bv(1, 64), kinds[0] == bv(d_err, 64), ev.f['len'] == bv(1, 64))
            posts.append(zand(g_o, znot(zor(ok_stream, ok_single))))
        post = zor(*posts) if posts else None
        res['exec_s'] = time.time() - t
        res['stats'] = {'blocks': int(ex.stats['blocks']), 'loop_iterations': int(ex.stats['loop_iterations']),
                        'obligations': len(ex.obligations)}
        res['models_used'] = dict(ex.used_models)
        res['functions'] = sorted(ex.inlined)
        by_kind = {}
        for kind, og, msg in ex.obligations:
            by_kind.setdefault(kind, []).append((og, msg))
        by_kind.setdefault('return', []).append((znot(g), 'lex() does not return'))
        if post is not None:
            by_kind.setdefault('unterminated', []).append((post, 'token stream does not end with two EndOfSource tokens '
                                                                 'and is not the one-error stream'))
        for kind, lst in sorted(by_kind.items()):
            s = z3.Solver()
            s.set('timeout', 600000)
            s.add(pre)
            s.add(zor(*[og for og, _ in lst]))
            t = time.time()
            r = s.check()
            dt = time.time() - t
            res['solver_s'] += dt
            q = {'template': 'entry:' + tname, 'name': 'entry-no-%s' % kind, 'result': str(r), 'seconds': round(dt, 2)}
            res['queries'].append(q)
            if r == z3.unknown:
                raise Inconclusive('z3 gave up on entry-no-%s' % kind)
            if r == z3.sat:
                m = s.model()
                ln = m.eval(L, model_completion=True).as_long()
                data = bytes(m.eval(x, model_completion=True).as_long() for x in src[:ln])
                msgs = [msg for og, msg in lst if z3.is_true(m.eval(og, model_completion=True))][:2]
                q['counterexample'] = data.hex()
                nat = native_lexdiff([data])[0]
                what = 'entry-no-%s on input %r (template %s): %s; native: %s' % (kind, data, tname, '; '.join(msgs), nat)
                key = 'entry-no-%s:%s' % (kind, data.hex())
                if key in known:
                    res['known_hits'].append(what)
                    continue
                if nat == 'same' and kind not in ('uninit', 'unterminated'):
                    raise Inconclusive('counterexample %r for entry-no-%s does not reproduce natively (%s)' % (data, kind, msgs))
                res['violations'].append({'what': what, 'query': 'entry-no-%s' % kind, 'template': tname, 'input_hex': data.hex(),
                                          'input_repr': repr(data), 'native': nat, 'obligation': msgs})
    except Inconclusive as e:
        res['error'] = str(e)
    return res


def _wanted(want_names, qn):
    exact, prefixes = want_names
    qn = re.sub(r'\[\d+\]$', '', qn)
    return qn in exact or any(qn.startswith(p) for p in prefixes)


def run_suite(prop, tier, templates, want_names, describe, outside, n_samples, extra=None, entry_templates=()):
    """templates: [(name, template, min_len)]; want_names = (set of exact query names, tuple of prefixes)
    selects the queries this property claims.  Templates are processed in parallel worker processes.
    Returns the exit code."""
    import multiprocessing
    from common import write_evidence, write_replay, known_keys
    t0 = time.time()
    mir_dump()
    reflex_dump()
    replay_binary()
    known = set(known_keys(prop))
    jobs = [(prop, name, template, min_len, want_names, n_samples, known, seed() * 1009 + 7 + i)
            for i, (name, template, min_len) in enumerate(templates)]
    ejobs = [(prop, name, template, min_len, known) for name, template, min_len in entry_templates]
    if ejobs:
        mir_dump('verif_small_buffers')
    workers = min(len(jobs) + len(ejobs), max(1, (os.cpu_count() or 4) - 2))
    ctx = multiprocessing.get_context('fork')
    with ctx.Pool(workers) as pool:
        async_e = pool.map_async(_process_entry, ejobs, chunksize=1) if ejobs else None
        results = pool.map(_process_template, jobs, chunksize=1)
        eresults = async_e.get() if async_e else []
    templates = list(templates) + [('entry:' + n_, t_, m_) for n_, t_, m_ in entry_templates]
    results = results + eresults
    errors = [r for r in results if r['error']]
    if errors:
        raise Inconclusive('; '.join('%s: %s' % (r['name'], r['error']) for r in errors))
    violations, known_hits, samples_out, queries = [], [], [], []
    space = 0
    stats = {'blocks': 0, 'loop_iterations': 0, 'obligations': 0}
    models_used, functions = {}, set()
    solver_s = exec_s = 0.0
    validated = 0
    for (name, template, min_len), r in zip(templates, results):
        nsym = sum(1 for b in template if b is SYM)
        space += sum(256 ** min(nsym, max(0, ln - (len(template) - nsym))) for ln in range(min_len, len(template) + 1))
        samples_out.append({'template': name,
                            'bytes': ''.join('?' if b is SYM else chr(b) if 32 <= b < 127 else '\\x%02x' % b for b in template),
                            'symbolic_bytes': nsym, 'min_len': min_len})
        for v in r['violations']:
            rp = write_replay(prop, '%s-%s' % (v['query'], v['input_hex'][:40]),
                              dict(v, property=prop, how='printf %s | pv_replay lexdiff --hex' % v['input_hex']))
            violations.append((v['what'], rp))
        known_hits += r['known_hits']
        queries += r['queries']
        for k in stats:
            stats[k] += r['stats'][k]
        for k, v in r['models_used'].items():
            models_used[k] = models_used.get(k, 0) + v
        functions.update(r['functions'])
        solver_s += r['solver_s']
        exec_s += r['exec_s']
        validated += r['validated']
    extra_cov = {}
    if extra is not None:
        ex_res = extra(tier)
        queries += ex_res['queries']
        violations += ex_res['violations']
        validated += ex_res['validated']
        functions.update(ex_res['functions'])
        solver_s += ex_res['solver_s']
        exec_s += ex_res['exec_s']
        stats['blocks'] += ex_res['blocks']
        extra_cov = ex_res.get('coverage', {})
        for k, v in ex_res.get('models_used', {}).items():
            models_used[k] = models_used.get(k, 0) + v
    wall = time.time() - t0
    nq = len(queries)
    cov = {
        'states': max(1, stats['blocks']),
        'transitions': max(1, stats['loop_iterations']),
        'traces_validated_against_impl': validated,
        'samples': samples_out[:6] + [q for q in queries if 'counterexample' in q][:3],
        'explanation': describe,
        'functions_encoded': sorted(functions),
        'bounds': {'templates': len(templates), 'max_symbolic_bytes': max(sum(1 for b in t if b is SYM) for _, t, _ in templates),
                   'input_space_decided': space, 'loop_unrolling': 'template length + 3, unwinding obligations checked'},
        'queries_discharged': nq,
        'queries_unsat': len([q for q in queries if q['result'] == 'unsat']),
        'slowest_queries': sorted(queries, key=lambda q: -q['seconds'])[:3],
        'solver_time_s': round(solver_s, 2),
        'symbolic_execution_s': round(exec_s, 2),
        'parallel_workers': workers,
        'std_models_used': models_used,
        'known_findings_seen': known_hits,
        'outside_claim': outside,
    }
    cov.update(extra_cov)
    write_evidence(prop, tier, 'model_checking', cov, wall,
                   ['rustc nightly MIR dumps of /repo and of the reference lexer /verif/reflex',
                    'mirsym interpreter and std models; both encodings reproduce the native lexers on sampled inputs each run',
                    'the reference lexer (reflex/src/lib.rs) is the reading of the documented lexical grammar; it is compared '
                    'natively with the real lexer on the whole repository corpus by `pv_replay lexdiff`',
                    'token/payload/error buffers are modelled as fixed arrays of template length + 3 slots; Tokens::empty and '
                    'set_tokens_len are outside this encoding'],
                   violations=len(violations))
    log('%s: %d templates, %d queries (%d unsat), %d native comparisons, input space %.3g, exec %.1fs, solver %.1fs, wall %.1fs'
        % (prop, len(templates), nq, cov['queries_unsat'], validated, space, exec_s, solver_s, wall))
    for w in known_hits:
        log('KNOWN-FINDING: property=%s %s' % (prop, w))
    for what, rp in violations:
        log('VIOLATION property=%s replay=%s' % (prop, rp))
        log('  ' + what)
    return 1 if violations else 0


def replay_file(prop, path):
    import json
    r = json.load(open(path))
    data = bytes.fromhex(r['input_hex'])
    nat = native_lexdiff([data])[0]
    log('input %r: %s' % (data, nat))
    if nat != 'same':
        log('VIOLATION property=%s replay=%s' % (prop, path))
        return 1
    return 0


def T(text, nsym):
    """template: concrete text followed by nsym symbolic bytes"""
    return [c for c in text.encode('latin-1')] + [SYM] * nsym
