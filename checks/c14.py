"""C14 (second-generation lexer vs. the documented lexical grammar): for every byte string of up to N
bytes the real lexer and the reference lexer produce the same tokens (kind, value type, payload), the
same spans and line bookkeeping and the same lexical errors.  The first-generation lexer, and hence the
"two lexers agree" sentence, is outside this check."""
import lexcheck
from lexcheck import SYM, T

PROP = 'C14'


def templates(tier):
    n = 4 if tier == 'quick' else 6
    ts = [('all-%d' % n, [SYM] * n, 1)]
    # token boundaries, comments and line bookkeeping behind a concrete prefix
    ts += [('after-newline-comment', T('a//x\n\n b', 2), 8),
           ('after-crlf', T('x\r\n\ty', 2), 6),
           ('keyword-tail', T('retur', 2), 5),
           ('type-tail', T('word12', 2), 6),
           ('builtin-tail', T('ab!', 2), 3),
           ('hex-max-payload', T('0x' + 'f' * 31, 2), 33),
           ('two-payloads', T('7 0x', 3), 4),
           # legal spellings with leading zeros: more digits than the width, value still within 128 bits
           ('hex-leading-zeros', T('0x' + '0' * 30 + 'A', 2), 33),
           ('binary-leading-zero', T('0b0' + '1' * 126, 2), 129)]
    if tier != 'quick':
        ts += [('two-strings', T('"a" "', 3), 5), ('usize-tail', T('usiz', 3), 4)]
    return ts


WANT = ({'returns-ok', 'reference-in-range', 'token-count', 'token-kind', 'token-value-type', 'token-has-payload', 'token-payload', 'token-span-start', 'token-span-end', 'token-line-start', 'token-line-number', 'error-count', 'error-list'}, ('slot-', 'ref-'))


def run(tier):
    return lexcheck.run_suite(
        PROP, tier, templates(tier), WANT,
        'delta::lexer::lex_source_into_buffer (MIR of /repo) and the reference lexer (MIR of /verif/reflex) symbolically '
        'executed on the same symbolic bytes; one solver query per observable (token count, kind, value type, payload, '
        'span, line start, line number, error list) asks for an input on which they differ.',
        ['the first-generation lexer and the agreement of the two lexers', 'inputs longer than the templates',
         'Tokens::empty / set_tokens_len (covered under C15)'],
        40 if tier == 'quick' else 300)


def replay_file(path):
    return lexcheck.replay_file(PROP, path)
