"""Duplicate names (part of C11: E421, E423-E426, and E422 for local variables): the six `declare_*` functions of
src/alpha/scoper/variable_references.rs, each executed from MIR as one step from an ARBITRARY analyzer state
(up to K named containers, two variable layers, up to F functions, all names and ids symbolic).

Rule: a declaration is rejected iff a declaration of the same name is visible in its name space - constants among the
constants, structures among the structures, functions among the functions, variables/parameters/members among every
variable layer including the constants (no shadowing) - with the code of its own kind; accepted or not, the name is
recorded with a fresh resolution id (the counter advances by one) and nothing else changes.
"""
import os
import random
import re
import time
import z3

from common import REPO, log, seed, Inconclusive
import vtlib
import containercheck
from containercheck import Sym, native, error_code
from mirsym import (Executor, State, ValRef, PlaceRef, Opaque, EnumV, Agg, Model, Unsupported, PathAbort,
                    bv, zand, zor, znot, zite)

KINDS = [('declare_constant', 'DuplicateDeclarationConstant'), ('declare_variable', 'DuplicateDeclarationVariable'),
         ('declare_parameter', 'DuplicateDeclarationParameter'), ('declare_member', 'DuplicateDeclarationMember'),
         ('declare_function', 'DuplicateDeclarationFunction'), ('declare_struct', 'DuplicateDeclarationStructure')]


def spec_declare(kind, name, nxt, cs, layers, funcs):
    """Expected native answer (verdict, dump) of `declare`."""
    if kind == 0:
        dup = any(n == name and not s for n, i, s in cs)
    elif kind == 5:
        dup = any(n == name and s for n, i, s in cs)
    elif kind == 4:
        dup = any(n == name for n, i in funcs)
    else:
        dup = any(n == name for l in layers for n, i in l)
    cs2, layers2, funcs2 = list(cs), [list(l) for l in layers], list(funcs)
    if kind in (0, 5):
        cs2.append((name, nxt, kind == 5))
    if kind in (0, 1, 2, 3):
        layers2[-1].append((name, nxt))
    if kind == 4:
        funcs2.append((name, nxt))
    code = {0: 423, 1: 422, 2: 424, 3: 426, 4: 421, 5: 425}[kind]
    dump = 'C %s | L %s | F %s | N %d' % (' '.join('n%d:%d:%d:0' % (n, i, 1 if s else 0) for n, i, s in cs2),
                                           '/'.join(','.join('n%d:%d' % e for e in l) or '-' for l in layers2),
                                           ' '.join('n%d:%d' % e for e in funcs2), nxt + 1)
    return ('err%d' % code) if dup else ('ok%d' % nxt), dump


def request(kind, name, nxt, cs, layers, funcs):
    return 'declare %d %d %d %s %s %s' % (kind, name, nxt, ','.join('%d:%d:%d' % (n, i, 1 if s else 0) for n, i, s in cs) or '-',
                                          '/'.join(','.join('%d:%d' % e for e in l) or '-' for l in layers),
                                          ','.join('%d:%d' % e for e in funcs) or '-')


def run(S, tier):
    K, L, F = (2, 2, 2) if tier == 'quick' else (3, 3, 3)
    t_start = time.time()
    edef = S.defs.find_enum('alpha::error::Error')
    results = {}
    pending, unconfirmed = [], []
    used_total = 0
    for kind, (fname, evariant) in enumerate(KINDS):
        ex = Executor(S.dump, S.defs, loop_bound=max(K, L, F) + 3)
        ex.abstract_types = {'HashSet': containercheck.W, 'String': 8, 'Location': 8}
        ex.vec_input_slots = 0
        ex.vec_new_slots = 2
        sy = Sym(S, ex, K)
        nidx, ridx = sy.idf.index('name'), sy.idf.index('resolution_id')
        aidx = sy.idf.index('is_authoritative') if 'is_authoritative' in sy.idf else None
        hits = [n for n in S.dump.function_names() if re.search(r'variable_references\.rs:\d+:\d+: \d+:\d+>::%s$' % fname, n)]
        if len(hits) != 1:
            raise Inconclusive('Analyzer::%s not found in the MIR dump' % fname)
        cvec = sy.fresh_containers('dc%d_' % kind, depth_none=False)
        # one spare slot for the push
        cvec = Model('vec', items=Agg(list(cvec.f['items'].fields[:K]) + [None, None], 'vecitems'), len=cvec.f['len'], cap=bv(K + 1, 64))

        def idents(tag, n):
            return [ex.fresh_value('alpha::common::Identifier', '%s%d_%d' % (tag, kind, i), depth=1) for i in range(n)]
        lay0, lay1, funs = idents('dl0_', L), idents('dl1_', L), idents('df', F)
        n0, n1, nf = z3.BitVec('dl0len%d' % kind, 64), z3.BitVec('dl1len%d' % kind, 64), z3.BitVec('dflen%d' % kind, 64)
        ex.assume(zand(z3.ULE(n0, bv(L, 64)), z3.ULE(n1, bv(L, 64)), z3.ULE(nf, bv(F, 64))))
        v0 = Model('vec', items=Agg(lay0 + [None, None], 'vecitems'), len=n0, cap=bv(L + 1, 64))
        v1 = Model('vec', items=Agg(lay1 + [None, None], 'vecitems'), len=n1, cap=bv(L + 1, 64))
        vstack = Model('vec', items=Agg([v0, v1, None], 'vecitems'), len=bv(2, 64), cap=bv(2, 64))
        fvec = Model('vec', items=Agg(funs + [None, None], 'vecitems'), len=nf, cap=bv(F + 1, 64))
        nxt = z3.BitVec('dnext%d' % kind, 32)
        ident = ex.fresh_value('alpha::common::Identifier', 'dname%d' % kind, depth=1)
        st = State()
        st.mem[(0, 'analyzer')] = sy.analyzer(cvec, variable_stack=vstack, function_list=fvec, resolution_id=nxt)
        try:
            g, res = ex.call_function(S.dump.get(hits[0]), [PlaceRef((0, 'analyzer')), ident], z3.BoolVal(True), st)
        except (Unsupported, PathAbort) as e:
            raise Inconclusive('cannot encode Analyzer::%s: %s' % (fname, e))
        post = st.mem[(0, 'analyzer')]
        pc, pv, pf, pn = (post.fields[sy.af.index(x)] for x in ('containers', 'variable_stack', 'function_list', 'resolution_id'))
        items = [x for x in cvec.f['items'].fields if x is not None]
        actc = [z3.ULT(bv(i, 64), cvec.f['len']) for i in range(len(items))]
        name = ident.fields[nidx]
        cname = lambda c: c.fields[sy.cf.index('identifier')].fields[nidx]
        a0 = [z3.ULT(bv(i, 64), n0) for i in range(L)]
        a1 = [z3.ULT(bv(i, 64), n1) for i in range(L)]
        af = [z3.ULT(bv(i, 64), nf) for i in range(F)]
        if kind == 0:
            dup = zor(*[zand(actc[i], znot(sy.is_struct(c)), cname(c) == name) for i, c in enumerate(items)])
        elif kind == 5:
            dup = zor(*[zand(actc[i], sy.is_struct(c), cname(c) == name) for i, c in enumerate(items)])
        elif kind == 4:
            dup = zor(*[zand(af[i], funs[i].fields[nidx] == name) for i in range(F)])
        else:
            dup = zor(*([zand(a0[i], lay0[i].fields[nidx] == name) for i in range(L)] + [zand(a1[i], lay1[i].fields[nidx] == name) for i in range(L)]))
        pre = z3.ULT(nxt, bv(0xFFFFFFFF, 32))
        panics = [og for k_, og, _ in ex.obligations if k_ not in ('bound', 'unwind')]
        in_model = znot(zor(*[og for k_, og, _ in ex.obligations if k_ in ('bound', 'unwind')]))
        is_ok = res.discr == bv(0, 64)
        err = res.variants['Err'][0] if 'Err' in res.variants else None
        right_err = zand(znot(is_ok), err.discr == bv(edef.variant_by_name(evariant)[1], 64)) if err is not None else z3.BoolVal(False)
        oid = res.variants['Ok'][0] if 'Ok' in res.variants else None
        ok_id = zand(oid.fields[ridx] == nxt, oid.fields[nidx] == name,
                     oid.fields[aidx] if aidx is not None else z3.BoolVal(True)) if oid is not None else z3.BoolVal(False)

        def appended(vec_post, vec_pre, slots, grows, same_elem, new_elem):
            """vec_post == vec_pre (++ [new] if grows): lengths and every slot."""
            pi = vec_post.f['items'].fields
            cons = [vec_post.f['len'] == zite(grows, vec_pre.f['len'] + bv(1, 64), vec_pre.f['len'])]
            for i in range(slots + 1):
                if i >= len(pi) or pi[i] is None:
                    cons.append(znot(zand(grows, vec_pre.f['len'] == bv(i, 64))) if i <= slots else z3.BoolVal(True))
                    continue
                old = vec_pre.f['items'].fields[i] if i < len(vec_pre.f['items'].fields) else None
                if old is not None:
                    cons.append(z3.Implies(z3.ULT(bv(i, 64), vec_pre.f['len']), same_elem(pi[i], old)))
                cons.append(z3.Implies(zand(grows, vec_pre.f['len'] == bv(i, 64)), new_elem(pi[i])))
            return zand(*cons)
        same_ident = lambda a, b: zand(a.fields[nidx] == b.fields[nidx], a.fields[ridx] == b.fields[ridx])
        new_ident = lambda a: zand(a.fields[nidx] == name, a.fields[ridx] == nxt)
        same_cont = lambda a, b: zand(same_ident(a.fields[sy.cf.index('identifier')], b.fields[sy.cf.index('identifier')]),
                                      sy.is_struct(a) == sy.is_struct(b), sy.mask(a) == sy.mask(b))
        new_cont = lambda a: zand(new_ident(a.fields[sy.cf.index('identifier')]), sy.is_struct(a) == z3.BoolVal(kind == 5),
                                  sy.mask(a) == bv(0, containercheck.W), sy.depth(a).discr == bv(0, 64))
        T_, F_ = z3.BoolVal(True), z3.BoolVal(False)
        pv_items = pv.f['items'].fields
        recorded = zand(
            pn == nxt + bv(1, 32),
            appended(pc, cvec, K, T_ if kind in (0, 5) else F_, same_cont, new_cont),
            pv.f['len'] == bv(2, 64),
            appended(pv_items[0], v0, L, F_, same_ident, new_ident),
            appended(pv_items[1], v1, L, T_ if kind in (0, 1, 2, 3) else F_, same_ident, new_ident),
            appended(pf, fvec, F, T_ if kind == 4 else F_, same_ident, new_ident))
        text = ('%s: rejected iff a %s of that name is visible (%s), recorded either way with a fresh resolution id, nothing else changes'
                % (fname, {0: 'constant', 5: 'structure', 4: 'function'}.get(kind, 'variable or constant in any layer'), evariant))
        solver = z3.SolverFor('QF_BV')
        solver.add(*ex.assumptions)

        def line_of(m):
            ev = lambda t_: m.eval(t_, model_completion=True).as_long()
            tv = lambda t_: z3.is_true(m.eval(t_, model_completion=True))
            cs = [(ev(cname(c)), ev(sy.cid(c)), tv(sy.is_struct(c))) for c in items[:ev(cvec.f['len'])]]
            layers = [[(ev(x.fields[nidx]), ev(x.fields[ridx])) for x in lay0[:ev(n0)]], [(ev(x.fields[nidx]), ev(x.fields[ridx])) for x in lay1[:ev(n1)]]]
            fs = [(ev(x.fields[nidx]), ev(x.fields[ridx])) for x in funs[:ev(nf)]]
            return (kind, ev(name), ev(nxt), cs, layers, fs)
        base = zand(pre, in_model)
        for qname, formula, kind_q in [
                ('declare:%s:total' % fname, zand(base, zor(znot(g), *panics)), 'claim'),
                ('declare:%s:duplicate-iff' % fname, zand(base, g, znot(zite(dup, right_err, zand(is_ok, ok_id)))), 'claim'),
                ('declare:%s:recorded' % fname, zand(base, g, znot(recorded)), 'claim'),
                ('declare:%s:witness-duplicate' % fname, zand(base, g, dup), 'witness'),
                ('declare:%s:witness-fresh' % fname, zand(base, g, znot(dup), n1 == bv(L, 64)), 'witness'),
                ('declare:%s:model-bounds' % fname, zand(pre, znot(in_model)), 'bounds')]:
            t = time.time()
            solver.push()
            solver.add(formula)
            r = solver.check()
            m = solver.model() if r == z3.sat else None
            solver.pop()
            dt = time.time() - t
            S.solver_s += dt
            if os.environ.get('VERIF_DEBUG'):
                log('  %s: %s %.1fs' % (qname, r, dt))
            if r == z3.unknown:
                raise Inconclusive('z3 answered unknown on %s' % qname)
            q = {'name': qname, 'result': str(r), 'seconds': round(dt, 3), 'statement': text}
            if kind_q == 'witness':
                q['expected'] = 'sat'
                if r != z3.sat:
                    unconfirmed.append('vacuity witness %s is unsatisfiable' % qname)
            S.queries.append(q)
            if kind_q == 'witness' or r != z3.sat:
                continue
            if kind_q == 'bounds':
                unconfirmed.append('%s: the bounded models are exceeded' % qname)
                continue
            req = line_of(m)
            line = request(*req)
            got = native(S, [line])[0]
            want = ' | '.join(spec_declare(*req))
            q['counterexample'] = {'request': line, 'native': got, 'expected': want}
            if got == want:
                unconfirmed.append('counterexample of %s does not reproduce natively: %s -> %s' % (qname, line, got))
                continue
            pending.append((qname, text, line, got))
        S.functions.append('Analyzer::' + fname)

        # native validation of this encoding
        rng = random.Random(seed() * 59 + kind)
        reqs = []
        for _ in range(25 if tier == 'quick' else 100):
            nm = lambda: rng.randint(1, 4)
            cs = [(nm(), rng.randint(0, 7), rng.random() < 0.5) for _ in range(rng.randint(0, K))]
            layers = [[(nm(), rng.randint(0, 30)) for _ in range(rng.randint(0, L))] for _ in range(2)]
            fs = [(nm(), rng.randint(0, 30)) for _ in range(rng.randint(0, F))]
            reqs.append((kind, nm(), rng.randint(1, 1000), cs, layers, fs))
        lines = [request(*r) for r in reqs]
        outs = native(S, lines)
        s2 = z3.Solver()
        s2.add(*ex.assumptions)
        bad = []
        for r, line, outl in zip(reqs, lines, outs):
            _k, nm_, nx_, cs, layers, fs = r
            cons = [name == bv(nm_, 8), nxt == bv(nx_, 32), cvec.f['len'] == bv(len(cs), 64), n0 == bv(len(layers[0]), 64),
                    n1 == bv(len(layers[1]), 64), nf == bv(len(fs), 64)]
            for c, (n_, i_, s_) in zip(items, cs):
                cons += [cname(c) == bv(n_, 8), sy.cid(c) == bv(i_, 32), sy.is_struct(c) == z3.BoolVal(s_), sy.mask(c) == bv(0, containercheck.W)]
            for xs, vals in ((lay0, layers[0]), (lay1, layers[1]), (funs, fs)):
                for x, (n_, i_) in zip(xs, vals):
                    cons += [x.fields[nidx] == bv(n_, 8), x.fields[ridx] == bv(i_, 32)]
            s2.push()
            s2.add(*cons)
            if s2.check() != z3.sat:
                s2.pop()
                continue
            m = s2.model()
            s2.pop()
            ev = lambda t_: m.eval(t_, model_completion=True).as_long()
            if not z3.is_true(m.eval(g, model_completion=True)):
                enc = 'PANIC'
            else:
                if z3.is_true(m.eval(is_ok, model_completion=True)):
                    v = 'ok%d' % ev(oid.fields[ridx])
                else:
                    v = 'err%d' % error_code(S, edef.variant_by_discr(ev(err.discr))[1])

                def dump_vec(vec, f):
                    return [f(x) for x in vec.f['items'].fields[:ev(vec.f['len'])]]
                fi = lambda x: 'n%d:%d' % (ev(x.fields[nidx]), ev(x.fields[ridx]))
                fc = lambda c: '%s:%d:%d' % (fi(c.fields[sy.cf.index('identifier')]), 1 if z3.is_true(m.eval(sy.is_struct(c), model_completion=True)) else 0,
                                             bin(ev(sy.mask(c))).count('1'))
                enc = '%s | C %s | L %s | F %s | N %d' % (v, ' '.join(dump_vec(pc, fc)),
                                                          '/'.join(','.join(dump_vec(l, fi)) or '-' for l in pv.f['items'].fields[:2]),
                                                          ' '.join(dump_vec(pf, fi)), ev(pn))
            used_total += 1
            if enc != outl:
                bad.append((line, enc, outl))
        if bad:
            raise Inconclusive('encoding disagrees with the native %s: %r' % (fname, bad[:2]))
    S.validated += used_total
    S.exec_s += time.time() - t_start
    if unconfirmed and not pending:
        raise Inconclusive('; '.join(unconfirmed[:3]))
    for qname, text, line, got_ in pending:
        S.violations.append({'query': qname, 'statement': text, 'a': ('Void',), 'b': None, 'functions': [],
                             'native_request': line, 'native_answer': got_, 'confirmed': True, 'key_extra': line})
    return {'declare_containers': K, 'declare_layer_slots': L, 'declare_functions': F, 'declare_native_comparisons': used_total}
