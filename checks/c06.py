"""C06 (placement rules, syntax pass): `loop` only as the final statement of a braced block (E800 elsewhere in a
block, E801 directly in a function body); each branch of an `if` is a `goto` or a braced block, an `else` branch may
also be another `if` (E840 otherwise).  The syntax pass (src/alpha/analyzer/syntax.rs) is symbolically executed on a
symbolic function body (statement trees of bounded depth and width) and its output tree is compared, node by
node, with the rules stated here."""
import os
import random
import re
import time
import z3

from common import REPO, log, mir_dump, write_evidence, write_replay, known_keys, Inconclusive, seed
import replay
from mirparse import MirDump
from rustdefs import RustDefs
from mirsym import Executor, State, PlaceRef, EnumV, BoxV, Agg, Model, Unsupported, bv, zand, zor, znot

PROP = 'C06'
EXPAND = ('FunctionBody', 'Statement', 'Block', 'Else', 'Vec', 'Poison', 'Error', 'Identifier', 'Comparison')
LEAF = {'Declaration': 'D', 'Assignment': 'A', 'MethodCall': 'M', 'Loop': 'L', 'Goto': 'G', 'Label': 'T'}
CODES = {'NonFinalLoopStatement': 800, 'MisplacedLoopStatement': 801, 'MissingBraces': 840}


def native(lines):
    replay.write_generated({})
    binary, _ = replay.build()
    rc, out, err = replay.run(binary, ['syntax-eval'], stdin='\n'.join(lines) + '\n')
    if rc != 0:
        raise Inconclusive('native syntax evaluation failed: ' + err[-300:])
    res = out.split('\n')[:len(lines)]
    if len(res) != len(lines):
        raise Inconclusive('native syntax evaluation: %d answers for %d requests' % (len(res), len(lines)))
    return res


class Tree:
    """Accessors for symbolic Statement values."""

    def __init__(self, defs):
        self.sdef = defs.find_enum('alpha::common::Statement')
        self.pdef = defs.find_enum('alpha::error::Poison')
        self.edef = defs.find_enum('alpha::error::Error')
        if not (self.sdef and self.pdef and self.edef):
            raise Inconclusive('Statement / Poison / Error not found in the source')
        self.d = {v[0]: v[1] for v in self.sdef.variants}
        want = set(LEAF) | {'If', 'Block', 'Poison'}
        if set(self.d) != want:
            raise Inconclusive('Statement has variants %s; the rules know %s' % (sorted(self.d), sorted(want)))
        self.if_names = [n for n, _ in self.sdef.variant_by_name('If')[2]]
        self._code_memo = {}

    def is_(self, s, *names):
        return zor(*[s.discr == bv(self.d[n], 64) for n in names])

    def then_of(self, s):
        f = s.variants.get('If')
        if f is None:
            return None
        b = f[self.if_names.index('then_branch')]
        return b.content if isinstance(b, BoxV) else None

    def else_of(self, s):
        """(present condition, branch statement or None)"""
        f = s.variants.get('If')
        if f is None:
            return None, None
        o = f[self.if_names.index('else_branch')]
        if 'Some' not in o.variants:
            return z3.BoolVal(False), None
        e = o.variants['Some'][0]
        b = e.fields[0]
        return o.discr == bv(1, 64), (b.content if isinstance(b, BoxV) else None)

    def block_of(self, s):
        """(items list, length term) of a Block statement, or (None, None)"""
        f = s.variants.get('Block')
        if f is None:
            return None, None
        vec = f[0].fields[0]
        if not isinstance(vec, Model):
            return None, None
        return [x for x in vec.f['items'].fields], vec.f['len']

    def error_code(self, s):
        """Term: 0 if s is not Poison(Error(..)) with a placement error, else 800/801/840, 999 for another error."""
        f = s.variants.get('Poison')
        if f is None:
            return z3.BitVecVal(0, 16)
        p = f[0]
        if 'Error' not in p.variants:
            return z3.BitVecVal(0, 16)
        key = id(s)
        hit = self._code_memo.get(key)
        if hit is not None:
            return hit[0]
        e = p.variants['Error'][0]
        is_err = zand(self.is_(s, 'Poison'), p.discr == bv(self.pdef.variant_by_name('Error')[1], 64))
        code = z3.BitVecVal(999, 16)
        for name, c in CODES.items():
            code = z3.If(e.discr == bv(self.edef.variant_by_name(name)[1], 64), z3.BitVecVal(c, 16), code)
        r = z3.If(is_err, code, z3.BitVecVal(0, 16))
        self._code_memo[key] = (r, s)
        return r


C16 = lambda n: z3.BitVecVal(n, 16)


def expected_code(T, s, pos):
    """The documented rule: which placement error a (non-poisoned) statement at position pos must get."""
    if pos == 'then':
        return z3.If(T.is_(s, 'Goto', 'Block', 'Poison'), C16(0), C16(840))
    if pos == 'else':
        return z3.If(T.is_(s, 'Goto', 'Block', 'If', 'Poison'), C16(0), C16(840))
    loop_code = {'final': 0, 'nonfinal': 800, 'body': 801}[pos]
    return z3.If(T.is_(s, 'Loop'), C16(loop_code), C16(0))


_kids_memo = {}


def kids_agree(T, a, b):
    """The components of output statement b are what the rules prescribe for the components of input a
    (independent of the position of a itself)."""
    key = (id(a), id(b))
    hit = _kids_memo.get(key)
    if hit is not None:
        return hit[0]
    kids = [b.discr == a.discr]
    ta, tb = T.then_of(a), T.then_of(b)
    if ta is not None and tb is not None:
        kids.append(z3.Implies(T.is_(a, 'If'), agree(T, ta, tb, 'then')))
    (pa, ea), (pb, eb) = T.else_of(a), T.else_of(b)
    if pa is not None and pb is not None:
        kids.append(z3.Implies(T.is_(a, 'If'), pa == pb))
        if ea is not None and eb is not None:
            kids.append(z3.Implies(zand(T.is_(a, 'If'), pa), agree(T, ea, eb, 'else')))
    (ia, la), (ib, lb) = T.block_of(a), T.block_of(b)
    if ia is not None and ib is not None:
        kids.append(z3.Implies(T.is_(a, 'Block'), la == lb))
        for i, x in enumerate(ia):
            if x is None or i >= len(ib) or ib[i] is None:
                if x is not None:
                    kids.append(z3.Implies(T.is_(a, 'Block'), z3.ULE(la, bv(i, 64))))
                continue
            live = z3.ULT(bv(i, 64), la)
            last = la == bv(i + 1, 64)
            kids.append(z3.Implies(zand(T.is_(a, 'Block'), live),
                                   z3.If(last, agree(T, x, ib[i], 'final'), agree(T, x, ib[i], 'nonfinal'))))
    r = zand(*kids)
    _kids_memo[key] = (r, a, b)
    return r


def agree(T, a, b, pos):
    """Output statement b is what the rules prescribe for input statement a at position pos."""
    if a is None or b is None:
        return z3.BoolVal(True)
    exp = expected_code(T, a, pos)
    got = T.error_code(b)
    in_poison = T.is_(a, 'Poison')
    return zand(z3.Implies(in_poison, T.is_(b, 'Poison')),
                z3.Implies(zand(znot(in_poison), exp != C16(0)), got == exp),
                z3.Implies(zand(znot(in_poison), exp == C16(0)), kids_agree(T, a, b)))


def wire(T, m, s):
    """Concrete statement denoted by symbolic s in model m, in the wire format of `pv_replay syntax-eval`."""
    d = m.eval(s.discr, model_completion=True).as_long()
    name = T.sdef.variant_by_discr(d)[1]
    if name in LEAF:
        return LEAF[name]
    if name == 'Poison':
        c = m.eval(T.error_code(s), model_completion=True).as_long()
        return 'P' if c == 0 else 'E%d' % c
    if name == 'If':
        t = T.then_of(s)
        p, e = T.else_of(s)
        r = 'I(' + (wire(T, m, t) if t is not None else 'D')
        if p is not None and z3.is_true(m.eval(p, model_completion=True)) and e is not None:
            r += ';' + wire(T, m, e)
        return r + ')'
    items, ln = T.block_of(s)
    n = m.eval(ln, model_completion=True).as_long()
    return 'B(' + ','.join(wire(T, m, items[i]) for i in range(n)) + ')'


def run(tier):
    depth, width = (4, 2) if tier == 'quick' else (5, 2)
    t0 = time.time()
    path, dump_s = mir_dump()
    dump = MirDump(path)
    defs = RustDefs(os.path.join(REPO, 'src'))
    T = Tree(defs)
    ex = Executor(dump, defs)
    ex.vec_input_slots = width
    ex.vec_new_slots = width + 1
    body = ex.fresh_value('alpha::common::FunctionBody', 'body', depth=depth, expand=lambda b: b in EXPAND)
    hdrs = [n for n in dump.function_names() if re.search(r'syntax\.rs:\d+:\d+: \d+:\d+>::analyze$', n)
            and dump.get(n).params[0][1].endswith('FunctionBody')]
    dflt = [n for n in dump.function_names() if 'syntax.rs' in n and n.endswith('::default')]
    if len(hdrs) != 1 or len(dflt) != 1:
        raise Inconclusive('syntax::Analyzable for FunctionBody / Analyzer::default not found in the MIR dump')
    try:
        an = ex.call_function(dump.get(dflt[0]), [], z3.BoolVal(True), State())[1]
        st = State()
        st.mem[(0, 'analyzer')] = an
        g, out = ex.call_function(dump.get(hdrs[0]), [body, PlaceRef((0, 'analyzer'))], z3.BoolVal(True), st)
    except Unsupported as e:
        raise Inconclusive('cannot encode the syntax pass: %s' % e)
    exec_s = time.time() - t0 - dump_s
    if os.environ.get('VERIF_DEBUG'):
        log('  main encoding: exec %.1fs blocks %d' % (exec_s, ex.stats['blocks']))
    sdef = defs.find_struct('alpha::common::FunctionBody')
    si = [f for f, _ in sdef.fields].index('statements')
    vin, vout = body.fields[si], out.fields[si]
    items_in, items_out = vin.f['items'].fields, vout.f['items'].fields
    n_in, n_out = vin.f['len'], vout.f['len']
    # inputs are statement trees as a parser produces them: no placement errors yet
    def clean(s, dd=0):
        if s is None:
            return z3.BoolVal(True)
        cs = [T.error_code(s) == z3.BitVecVal(0, 16)]
        t = T.then_of(s)
        if t is not None:
            cs.append(clean(t, dd + 1))
        p, e = T.else_of(s)
        if e is not None:
            cs.append(clean(e, dd + 1))
        its, _ = T.block_of(s)
        for x in its or []:
            cs.append(clean(x, dd + 1))
        return zand(*cs)
    pre = zand(*[clean(x) for x in items_in if x is not None])
    ok = [n_in == n_out]
    for i, x in enumerate(items_in):
        if x is None or i >= len(items_out) or items_out[i] is None:
            continue
        ok.append(z3.Implies(z3.ULT(bv(i, 64), n_in), agree(T, x, items_out[i], 'body')))
    queries, pending = [], []
    solver_s = 0.0

    def body_wire(m, items, ln):
        n = m.eval(ln, model_completion=True).as_long()
        return ' '.join(wire(T, m, items[i]) for i in range(n))

    def ask(qname, formula, text):
        nonlocal solver_s
        s = z3.SolverFor('QF_BV')
        s.add(*ex.assumptions)
        s.add(pre)
        s.add(formula)
        t = time.time()
        r = s.check()
        dt = time.time() - t
        solver_s += dt
        if r == z3.unknown:
            raise Inconclusive('z3 answered unknown on %s' % qname)
        q = {'name': qname, 'result': str(r), 'seconds': round(dt, 3), 'statement': text}
        queries.append(q)
        if os.environ.get('VERIF_DEBUG'):
            log('  %s: %s %.1fs' % (q['name'], q['result'], q['seconds']))
        if r == z3.sat:
            m = s.model()
            line = body_wire(m, items_in, n_in)
            enc = body_wire(m, items_out, n_out)
            got = native([line])[0]
            q['counterexample'] = {'body': line, 'native': got, 'encoding': enc}
            if got != enc:
                raise Inconclusive('counterexample [%s] does not reproduce natively: native [%s], encoding [%s]' % (line, got, enc))
            pending.append((qname, text, line, got))

    obs = [og for _, og, _ in ex.obligations]
    ask('syntax-pass-total', zor(znot(g), *obs), 'the syntax pass returns for every statement tree within the bound, without panic')
    ask('placement-rules', zand(g, znot(zand(*ok))),
        'loop only as the final statement of a braced block (E800/E801); if-branches are goto or braced block, else may be another if (E840); nothing else changes')

    # the lint clause forks on iterator positions: wide trees at depth 3, narrow ones (one statement per block) deeper
    # the lint clause keeps the quick tier's bounds in both tiers: depth 5 x width 1 and depth 4 x width 2 did not finish in 40 minutes
    for ld, lw in ((3, width), (4, 1)):
        lint = lint_clause(T, dump, defs, ld, lw, ask_generic=None)
        for q in lint['queries']:
            q['name'] += '@depth%d,width%d' % (ld, lw)
        queries += lint['queries']
        pending += lint['pending']
        solver_s += lint['solver_s']
        exec_s += lint['exec_s']

    if os.environ.get('VERIF_DEBUG'):
        log('  lint clauses done at %.0fs' % (time.time() - t0))
    # native validation of the encoding on random statement trees
    rng = random.Random(seed() * 23 + 11)

    def rnd(dd):
        r = rng.random()
        if dd <= 0 or r < 0.45:
            return rng.choice('DAMLGT')
        if r < 0.75:
            return 'I(' + rnd(dd - 1) + (';' + rnd(dd - 1) if rng.random() < 0.6 else '') + ')'
        return 'B(' + ','.join(rnd(dd - 1) for _ in range(rng.randint(0, width))) + ')'
    lines = [' '.join(rnd(depth) for _ in range(rng.randint(1, width))) for _ in range(60 if tier == 'quick' else 400)]
    lines += ['L B(L,D,L) I(G;I(I(G)))', 'I(L) I(B(L);D) B(I(G;I(G;B(D,L))))', 'I(G;I(G;I(G;G)))', 'B(B(L),L) I(B(D,L))']
    lines = [l for l in lines if l.strip()]
    got = native(lines)
    s2 = z3.SolverFor('QF_BV')
    s2.add(*ex.assumptions)
    bad = []
    t_val, n_val = time.time(), 0
    for line, r_n in zip(lines, got):
        if n_val >= 10 and time.time() - t_val > (120 if tier == 'quick' else 300):
            break           # big encodings: every comparison is a solver call; the sample is time-boxed
        n_val += 1
        if os.environ.get('VERIF_DEBUG'):
            log('  validation %d at %.0fs' % (n_val, time.time() - t0))
        cons = []
        try:
            parts = line.split(' ')
            cons.append(n_in == bv(len(parts), 64))
            if len(parts) > width:
                continue
            for x, txt in zip(items_in, parts):
                bind(T, x, txt, cons)
        except ValueError:
            continue        # deeper or wider than the symbolic tree
        s2.push()
        s2.add(*cons)
        if s2.check() != z3.sat:
            s2.pop()
            continue
        enc = body_wire(s2.model(), items_out, n_out)
        s2.pop()
        if enc != r_n:
            bad.append((line, enc, r_n))
    if bad:
        raise Inconclusive('encoding disagrees with the native syntax pass: %r' % bad[:3])

    known = known_keys(PROP)
    out_v = []
    for qname, text, line, got_ in pending:
        key = '%s:%s' % (qname, line)
        what = '%s fails for body [%s]: the syntax pass gives [%s] (%s)' % (qname, line, got_, text)
        if key in known:
            log('KNOWN-FINDING: property=%s %s' % (PROP, what))
            continue
        rp = write_replay(PROP, key, {'property': PROP, 'query': qname, 'statement': text, 'body': line, 'native': got_,
                                      'how': 'echo "%s" | pv_replay syntax-eval' % line})
        out_v.append((what, rp))
    wall = time.time() - t0
    cov = {
        'states': max(1, int(ex.stats['blocks'])), 'transitions': max(1, len(queries)),
        'traces_validated_against_impl': n_val, 'samples': queries,
        'explanation': 'syntax::Analyzable for FunctionBody/Block/Statement symbolically executed from MIR on a symbolic function '
                       'body: statement trees of nesting depth <= %d with up to %d statements per body/block (symbolic lengths), '
                       'all nine statement kinds, if/else shapes and already-poisoned statements; the output tree is compared '
                       'node by node with the placement rules.' % (depth, width),
        'functions_encoded': sorted(ex.inlined),
        'bounds': {'nesting_depth': depth, 'statements_per_block': width, 'outside': 'deeper or wider statement trees'},
        'queries_discharged': len(queries), 'queries_unsat': len([q for q in queries if q['result'] == 'unsat']),
        'solver_time_s': round(solver_s, 3), 'symbolic_execution_s': round(exec_s, 3), 'mir_dump_s': round(dump_s, 2),
        'std_models_used': {k: int(v) for k, v in ex.used_models.items()},
        'outside_claim': ['the L1800 lint (linter.rs)', 'the generator assumption that loop is last in a block',
                          'statement trees deeper than the bound'],
    }
    write_evidence(PROP, tier, 'model_checking', cov, wall,
                   ['rustc nightly MIR dump', 'mirsym and its models (owned Vec iteration: into_iter/map/collect, pop, push; Box; Option::map)',
                    'native validation through the guarded hook analyzer::verif_syntax_analyze'], violations=len(out_v))
    log('%s: depth %d width %d, %d queries (%d unsat), %d native comparisons, exec %.1fs, solver %.1fs, wall %.1fs'
        % (PROP, depth, width, len(queries), cov['queries_unsat'], n_val, exec_s, solver_s, wall))
    for what, rp in out_v:
        log('VIOLATION property=%s replay=%s' % (PROP, rp))
        log('  ' + what)
    return 1 if out_v else 0


def native_lint(lines):
    replay.write_generated({})
    binary, _ = replay.build()
    rc, out, err = replay.run(binary, ['lint-tree-eval'], stdin='\n'.join(lines) + '\n')
    if rc != 0:
        raise Inconclusive('native lint evaluation failed: ' + err[-300:])
    return out.split('\n')[:len(lines)]


def loop_first_count(T, s):
    """Number of braced if-branches inside statement s whose first statement is `loop` (16-bit term)."""
    if s is None:
        return C16(0)

    def branch_hit(b):
        if b is None:
            return C16(0)
        items, ln = T.block_of(b)
        if not items or items[0] is None:
            return C16(0)
        return z3.If(zand(T.is_(b, 'Block'), ln != bv(0, 64), T.is_(items[0], 'Loop')), C16(1), C16(0))
    total = C16(0)
    t = T.then_of(s)
    p, e = T.else_of(s)
    if t is not None:
        total = total + z3.If(T.is_(s, 'If'), branch_hit(t) + loop_first_count(T, t), C16(0))
    if e is not None:
        total = total + z3.If(zand(T.is_(s, 'If'), p), branch_hit(e) + loop_first_count(T, e), C16(0))
    items, ln = T.block_of(s)
    for i, x in enumerate(items or []):
        if x is not None:
            total = total + z3.If(zand(T.is_(s, 'Block'), z3.ULT(bv(i, 64), ln)), loop_first_count(T, x), C16(0))
    return total


def lint_clause(T, dump, defs, depth, width, ask_generic):
    """L1800: exactly one lint per braced branch whose first statement is `loop`, and no other lint."""
    import mirmodels
    t0 = time.time()
    d2 = depth
    ex = Executor(dump, defs, loop_bound=width + 2)
    ex.vec_input_slots = width
    ex.havoc_patterns = [r'<(?:common::)?Expression as Lintable>::lint$', r'<(?:std::option::)?Option<.*> as Lintable>::lint$',
                         r'<(?:common::)?Reference as Lintable>::lint$']
    body = ex.fresh_value('alpha::common::FunctionBody', 'lbody', depth=d2, expand=lambda b: b in EXPAND)
    hdr = [n for n in dump.function_names() if re.search(r'linter\.rs:\d+:\d+: \d+:\d+>::lint$', n)
           and dump.get(n).params[0][1].endswith('FunctionBody')]
    if len(hdr) != 1:
        raise Inconclusive('<FunctionBody as Lintable>::lint not found in the MIR dump')
    none = EnumV(defs.find_enum('Option'), bv(0, 64), {'None': ()})
    nslots = 2 * (width + 2) ** d2
    st = State()
    st.mem[(0, 'linter')] = Agg([mirmodels.new_vec(min(nslots, 40), bv(0, 64), bv(0, 64)), none, none], 'Linter')
    from mirsym import ValRef
    try:
        g, _ = ex.call_function(dump.get(hdr[0]), [ValRef(body), PlaceRef((0, 'linter'))], z3.BoolVal(True), st)
    except Unsupported as e:
        raise Inconclusive('cannot encode the statement linter: %s' % e)
    exec_s = time.time() - t0
    lints = st.mem[(0, 'linter')].fields[0]
    nl = lints.f['len']
    sdef = defs.find_struct('alpha::common::FunctionBody')
    si = [f for f, _ in sdef.fields].index('statements')
    vin = body.fields[si]
    items_in, n_in = vin.f['items'].fields, vin.f['len']
    expected = C16(0)
    for i, x in enumerate(items_in):
        if x is not None:
            expected = expected + z3.If(z3.ULT(bv(i, 64), n_in), loop_first_count(T, x), C16(0))
    edef = defs.find_enum('alpha::error::Error')
    d_l1800 = edef.variant_by_name('LoopAsFirstStatement')[1]
    others = zor(*[zand(z3.ULT(bv(k, 64), nl), it.discr != bv(d_l1800, 64)) for k, it in enumerate(lints.f['items'].fields)
                   if it is not None])
    obs = [og for _, og, _ in ex.obligations]
    res = {'queries': [], 'pending': [], 'solver_s': 0.0, 'exec_s': exec_s}

    def body_wire(m):
        n = m.eval(n_in, model_completion=True).as_long()
        return ' '.join(wire(T, m, items_in[i]) for i in range(n))

    for qname, formula, text in [
            ('lint-total', zor(znot(g), *obs), 'the statement linter returns for every statement tree within the bound, without panic'),
            ('l1800-count', zand(g, z3.Extract(15, 0, nl) != expected),
             'exactly one L1800 per braced if-branch whose first statement is loop'),
            ('l1800-only', zand(g, others), 'statements raise no lint other than L1800')]:
        s = z3.SolverFor('QF_BV')
        s.add(*ex.assumptions)
        s.add(formula)
        t = time.time()
        r = s.check()
        dt = time.time() - t
        res['solver_s'] += dt
        if r == z3.unknown:
            raise Inconclusive('z3 answered unknown on %s' % qname)
        q = {'name': qname, 'result': str(r), 'seconds': round(dt, 3), 'statement': text}
        res['queries'].append(q)
        if r == z3.sat:
            m = s.model()
            line = body_wire(m)
            got = native_lint([line])[0]
            n_enc = m.eval(nl, model_completion=True).as_long()
            q['counterexample'] = {'body': line, 'native': got, 'encoding_lints': n_enc}
            if got.count('1800') != n_enc and qname != 'lint-total':
                raise Inconclusive('lint counterexample [%s] does not reproduce natively: native %s, encoding %d lints' % (line, got, n_enc))
            res['pending'].append((qname, text, line, got))
    return res


def bind(T, s, txt, cons):
    """Constrain symbolic statement s to denote the wire statement txt (raises ValueError if it does not fit)."""
    if s is None:
        raise ValueError('too deep')
    c = txt[0]
    rev = {v: k for k, v in LEAF.items()}
    if c in rev:
        cons.append(s.discr == bv(T.d[rev[c]], 64))
        return
    if c == 'I':
        cons.append(s.discr == bv(T.d['If'], 64))
        inner = txt[2:-1]
        depth, k = 0, -1
        for i, ch in enumerate(inner):
            if ch == '(':
                depth += 1
            elif ch == ')':
                depth -= 1
            elif ch == ';' and depth == 0:
                k = i
                break
        p, e = T.else_of(s)
        if k < 0:
            bind(T, T.then_of(s), inner, cons)
            cons.append(znot(p))
        else:
            bind(T, T.then_of(s), inner[:k], cons)
            cons.append(p)
            bind(T, e, inner[k + 1:], cons)
        return
    if c == 'B':
        cons.append(s.discr == bv(T.d['Block'], 64))
        inner = txt[2:-1]
        parts, depth, cur = [], 0, ''
        for ch in inner:
            if ch == ',' and depth == 0:
                parts.append(cur)
                cur = ''
                continue
            if ch == '(':
                depth += 1
            elif ch == ')':
                depth -= 1
            cur += ch
        if cur:
            parts.append(cur)
        items, ln = T.block_of(s)
        if items is None or len(parts) > len([x for x in items if x is not None]):
            raise ValueError('too wide')
        cons.append(ln == bv(len(parts), 64))
        for x, ptxt in zip(items, parts):
            bind(T, x, ptxt, cons)
        return
    raise ValueError('unknown ' + txt)


def replay_file(path):
    import json
    r = json.load(open(path))
    got = native([r['body']])[0]
    log('syntax pass on [%s]: [%s] (recorded [%s])' % (r['body'], got, r['native']))
    if got == r['native']:
        log('VIOLATION property=%s replay=%s' % (PROP, path))
        return 1
    return 0
