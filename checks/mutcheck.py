"""C08, verdict clauses of the mutability pass (src/alpha/analyzer/mutability.rs), each executed from MIR as one step from an
ARBITRARY analyzer state (the map resolution id -> (identifier, is_mutable) with up to N symbolic entries):

  use        Analyzer::use_variable: E530 iff the variable is mutated and was declared immutable; an undeclared id is poisoned
             silently; a poisoned base passes.
  assign     the Assignment arm of Statement::analyze on a symbolic reference (<= K access steps): the statement becomes
             E530 iff the base is declared immutable and the reference does not pass through a pointer; otherwise it keeps
             its reference.
  address    the Deref arm of Expression::analyze: taking the address (`&x`, address_depth > 0) of an immutable variable
             without passing through a pointer is E530; plain reads never are.
  declare    what each declaration form records: constants and parameters immutable, structure members mutable, local
             variables mutable unless their type is an array view, a slice pointer or a view.

Recursive calls that analyse sub-expressions are havoc (unconstrained results): the clauses are about each arm on its own,
whatever its children turn into.  That sub-expression analysis cannot declare variables is checked on the MIR call graph.
"""
import os
import random
import re
import time
import z3

from common import REPO, log, mir_dump, seed, Inconclusive
import replay
from mirparse import MirDump
from rustdefs import RustDefs
from mirsym import (Executor, State, ValRef, PlaceRef, Opaque, EnumV, BoxV, BoxPtr, Agg, Model, Unsupported, PathAbort,
                    bv, zand, zor, znot, zite)
import mirmodels

EXPR_ANALYZE = r'<(?:common::)?Expression as (?:\w+::)?Analyzable>::analyze$'


def native(lines):
    replay.write_generated({})
    binary, _ = replay.build()
    rc, out, err = replay.run(binary, ['mutpass-eval'], stdin='\n'.join(lines) + '\n')
    if rc != 0:
        raise Inconclusive('native mutability evaluation failed: ' + err[-300:])
    res = out.split('\n')[:len(lines)]
    if len(res) != len(lines):
        raise Inconclusive('native mutability evaluation: %d answers for %d requests' % (len(res), len(lines)))
    return res


def impl_fn(dump, self_suffix, method='analyze'):
    """The `impl Analyzable for <T>` method of mutability.rs whose first parameter type ends with self_suffix."""
    hits = [n for n in dump.function_names() if re.search(r'mutability\.rs:\d+:\d+: \d+:\d+>::%s$' % method, n)
            and dump.get(n).params and dump.get(n).params[0][1].endswith(self_suffix)]
    if len(hits) != 1:
        raise Inconclusive('mutability: %s for %s not found in the MIR dump' % (method, self_suffix))
    return dump.get(hits[0])


def reachable_calls(dump, start):
    """Names of dump functions reachable from `start` through direct calls (textual call graph)."""
    seen, todo = set(), [start]
    while todo:
        n = todo.pop()
        if n in seen:
            continue
        seen.add(n)
        text = dump.text_of(n)
        for m in re.finditer(r'= ([^;\n]*?)\((?:move|copy|const|&|_|\))', text):
            callee = m.group(1).strip()
            for cand in dump.fn_index:
                if cand not in seen and (cand == callee or callee.endswith(cand)):
                    todo.append(cand)
    return seen


class Ctx:
    def __init__(self, tier):
        self.tier = tier
        self.N = 3 if tier == 'quick' else 4          # entries of the symbolic map
        self.K = 3 if tier == 'quick' else 5          # access steps of a reference
        path, self.dump_s = mir_dump()
        self.dump = MirDump(path)
        self.defs = RustDefs(os.path.join(REPO, 'src'))
        self.queries, self.pending, self.unconfirmed = [], [], []
        self.solver_s = self.exec_s = 0.0
        self.functions, self.models = [], {}
        self.blocks = 0
        self.used = 0
        self.idef = self.defs.find_struct('alpha::common::Identifier')
        self.ridx = [f for f, _ in self.idef.fields].index('resolution_id')
        self.edef = self.defs.find_enum('alpha::error::Error')
        self.pdef = self.defs.find_enum('alpha::error::Poison')
        self.sdef = self.defs.find_enum('alpha::common::ReferenceStep')
        self.ddef = self.defs.find_enum('alpha::common::DesliceOffset')
        self.rdef = self.defs.find_struct('alpha::common::Reference')

    def executor(self, loop_bound=None):
        ex = Executor(self.dump, self.defs, loop_bound=loop_bound or self.K + 3)
        ex.abstract_types = {'String': 8, 'Location': 8}
        ex.vec_input_slots = 0
        ex.hmap_slots = self.N + 1
        ex.havoc_patterns = [EXPR_ANALYZE]
        return ex

    def fresh_map(self, ex, tag):
        """A symbolic map with N entries (symbolic presence, distinct keys) and one spare slot."""
        slots, keys = [], []
        for i in range(self.N):
            p_ = z3.Bool('%s.present%d' % (tag, i))
            k_ = z3.BitVec('%s.key%d' % (tag, i), 32)
            ident = ex.fresh_value('alpha::common::Identifier', '%s.id%d' % (tag, i), depth=1)
            mut = z3.Bool('%s.mutable%d' % (tag, i))
            slots.append(Agg([p_, k_, Agg([ident, mut])], 'hslot'))
            for pj, kj in keys:
                ex.assume(z3.Implies(zand(p_, pj), k_ != kj))
            keys.append((p_, k_))
        slots.append(Agg([z3.BoolVal(False), bv(0, 32), None], 'hslot'))
        return mirmodels.new_hmap(0, slots)

    def analyzer(self, mp):
        adef = self.defs.find_struct('alpha::analyzer::mutability::Analyzer')
        if adef is None or [f for f, _ in adef.fields] != ['variables']:
            raise Inconclusive('mutability::Analyzer is no longer { variables }')
        return Agg([mp], 'Analyzer')

    def lookup(self, mp, key):
        found, val = mirmodels.hmap_lookup(mp, key)
        mutable = val.fields[1] if val is not None else z3.BoolVal(False)
        return found, mutable

    def fresh_reference(self, ex, tag):
        steps = []
        for i in range(self.K):
            s = ex.fresh_value('alpha::common::ReferenceStep', '%s.step%d' % (tag, i), depth=1,
                               expand=lambda b: b in ('ReferenceStep', 'DesliceOffset'))
            if 'Element' in s.variants:
                names = [n for n, _ in self.sdef.variant_by_name('Element')[2]]
                fs = list(s.variants['Element'])
                fs[names.index('argument')] = BoxV(Opaque('in:expr:%s.index%d' % (tag, i)))
                s.variants['Element'] = tuple(fs)
            steps.append(s)
        n = z3.BitVec(tag + '.nsteps', 64)
        ex.assume(z3.ULE(n, bv(self.K, 64)))
        ex.var_bounds[tag + '.nsteps'] = (0, self.K)
        base_id = ex.fresh_value('alpha::common::Identifier', tag + '.base', depth=1)
        base_ok = z3.Bool(tag + '.base_ok')
        base = EnumV(self.defs.find_enum('Result'), zite(base_ok, bv(0, 64), bv(1, 64)),
                     {'Ok': (base_id,), 'Err': (EnumV(self.pdef, bv(self.pdef.variant_by_name('Poisoned')[1], 64), {'Poisoned': ()}),)})
        depth = z3.BitVec(tag + '.address_depth', 8)
        fields = []
        for fname, ft in self.rdef.fields:
            if fname == 'steps':
                fields.append(Model('vec', items=Agg(steps + [None], 'vecitems'), len=n, cap=bv(self.K, 64)))
            elif fname == 'address_depth':
                fields.append(depth)
            elif fname == 'base':
                fields.append(base)
            else:
                fields.append(z3.BitVec('%s.%s' % (tag, fname), 8))
        d_autoderef = self.sdef.variant_by_name('Autoderef')[1]
        d_deslice = self.sdef.variant_by_name('Autodeslice')[1]
        d_byptr = self.ddef.variant_by_name('ArrayByPointer')[1]
        through_pointer = zor(*[zand(z3.ULT(bv(i, 64), n),
                                     zor(s.discr == bv(d_autoderef, 64),
                                         zand(s.discr == bv(d_deslice, 64), s.variants['Autodeslice'][0].discr == bv(d_byptr, 64))))
                                for i, s in enumerate(steps)])
        return Agg(fields, 'Reference'), dict(steps=steps, n=n, base_ok=base_ok, base_id=base_id, depth=depth, through_pointer=through_pointer)

    # -------------------------------------------------------------------------------------------------------------
    def poison_kind(self, p):
        """(is NotMutable error, is silent poison) of a Poison value."""
        is_err = p.discr == bv(self.pdef.variant_by_name('Error')[1], 64)
        e = p.variants['Error'][0] if 'Error' in p.variants else None
        nm = zand(is_err, e.discr == bv(self.edef.variant_by_name('NotMutable')[1], 64)) if e is not None else z3.BoolVal(False)
        return nm, p.discr == bv(self.pdef.variant_by_name('Poisoned')[1], 64)

    def ask(self, ex, name, formula, text, kind='claim', describe=None, native_fn=None):
        s = z3.SolverFor('QF_BV')
        s.add(*ex.assumptions)
        s.add(formula)
        t = time.time()
        r = s.check()
        dt = time.time() - t
        self.solver_s += dt
        if os.environ.get('VERIF_DEBUG'):
            log('  %s: %s %.1fs' % (name, r, dt))
        if r == z3.unknown:
            raise Inconclusive('z3 answered unknown on %s' % name)
        q = {'name': name, 'result': str(r), 'seconds': round(dt, 3), 'statement': text}
        if kind == 'witness':
            q['expected'] = 'sat'
            if r != z3.sat:
                self.unconfirmed.append('vacuity witness %s is unsatisfiable' % name)
        self.queries.append(q)
        if kind == 'witness' or r != z3.sat:
            return
        if kind == 'bounds':
            self.unconfirmed.append('%s: the bounded models are exceeded' % name)
            return
        m = s.model()
        if describe is None:
            self.unconfirmed.append('%s has a counter-model and no native replay' % name)
            return
        line, want = describe(m)
        if line is None:
            self.unconfirmed.append('%s has a counter-model that the native replay cannot express' % name)
            return
        got = (native_fn or native)([line])[0]
        q['counterexample'] = {'request': line, 'native': got, 'expected': want}
        if got == want:
            self.unconfirmed.append('counterexample of %s does not reproduce natively: %s -> %s' % (name, line, got))
            return
        self.pending.append((name, text, line, got))

    def finish_ex(self, ex):
        self.blocks += int(ex.stats['blocks'])
        for k, v in ex.used_models.items():
            self.models[k] = self.models.get(k, 0) + int(v)
        self.functions += list(ex.inlined)


# ------------------------------------------------------------------------------------------------------------------ wire
STEP_NAMES = ['Element', 'Member', 'Autodeslice:ArrayByView', 'Autodeslice:ArrayByPointer', 'Autodeslice:Length', 'Autoderef', 'Autoview']


def step_wire(C, m, s):
    d = m.eval(s.discr, model_completion=True).as_long()
    name = C.sdef.variant_by_discr(d)[1]
    if name == 'Autodeslice':
        off = s.variants['Autodeslice'][0]
        name += ':' + C.ddef.variant_by_discr(m.eval(off.discr, model_completion=True).as_long())[1]
    return name


def map_wire(C, m, mp):
    out = []
    for sl in mp.f['slots'].fields:
        p_, k_, v_ = sl.fields
        if v_ is not None and z3.is_true(m.eval(p_, model_completion=True)):
            out.append('%d:%d' % (m.eval(k_, model_completion=True).as_long(), 1 if z3.is_true(m.eval(v_.fields[1], model_completion=True)) else 0))
    return ','.join(out) or '-'


def through_pointer_c(steps):
    return any(s in ('Autoderef', 'Autodeslice:ArrayByPointer') for s in steps)


def spec_ref(mapping, base, steps, mutated_if_outer):
    """Expected verdict for a reference: 'ok' / 'err530' / 'poisoned'."""
    if base is None:
        return 'ok'
    if base not in mapping:
        return 'poisoned'
    if mutated_if_outer and not through_pointer_c(steps) and not mapping[base]:
        return 'err530'
    return 'ok'


def parse_map(t):
    return {} if t == '-' else {int(e.split(':')[0]): e.split(':')[1] == '1' for e in t.split(',')}


def run(tier):
    """Returns a dict with queries, pending violations etc. (merged into C08's evidence by c08.py)."""
    t0 = time.time()
    C = Ctx(tier)
    dump = C.dump

    # ---- frame condition: analysing an expression never declares a variable
    expr_fn = impl_fn(dump, 'common::Expression')
    reach = reachable_calls(dump, expr_fn.name)
    decl = [n for n in reach if n.endswith('::declare_variable')]
    C.queries.append({'name': 'frame:expressions-do-not-declare', 'result': 'unsat' if not decl else 'sat', 'seconds': 0.0,
                      'statement': 'no function reachable from <Expression as Analyzable>::analyze (%d functions in the MIR call graph) is '
                                   'declare_variable, so treating sub-expression analysis as havoc loses no state change' % len(reach)})
    if decl:
        raise Inconclusive('Expression::analyze can reach declare_variable: the havoc of sub-expression analysis is not justified')

    # ---- use_variable
    ex = C.executor()
    mp = C.fresh_map(ex, 'um')
    ident = ex.fresh_value('alpha::common::Identifier', 'uid', depth=1)
    ok_in = z3.Bool('u.base_ok')
    base = EnumV(C.defs.find_enum('Result'), zite(ok_in, bv(0, 64), bv(1, 64)),
                 {'Ok': (ident,), 'Err': (EnumV(C.pdef, bv(C.pdef.variant_by_name('Poisoned')[1], 64), {'Poisoned': ()}),)})
    mutated = z3.Bool('u.is_mutated')
    hits = [n for n in dump.function_names() if re.search(r'mutability\.rs:\d+:\d+: \d+:\d+>::use_variable$', n)]
    if len(hits) != 1:
        raise Inconclusive('mutability::Analyzer::use_variable not found')
    st = State()
    t1 = time.time()
    try:
        g, res = ex.call_function(dump.get(hits[0]), [ValRef(C.analyzer(mp)), ValRef(base), mutated], z3.BoolVal(True), st)
    except (Unsupported, PathAbort) as e:
        raise Inconclusive('cannot encode mutability::use_variable: %s' % e)
    C.exec_s += time.time() - t1
    rid = ident.fields[C.ridx]
    found, mutable = C.lookup(mp, rid)
    is_ok = res.discr == bv(0, 64)
    nm, silent = C.poison_kind(res.variants['Err'][0]) if 'Err' in res.variants else (z3.BoolVal(False), z3.BoolVal(False))
    expected = zite(znot(ok_in), is_ok, zite(znot(found), zand(znot(is_ok), silent),
                                             zite(zand(mutated, znot(mutable)), zand(znot(is_ok), nm), is_ok)))
    panics = [og for k_, og, _ in ex.obligations if k_ not in ('bound', 'unwind')]
    in_model = znot(zor(*[og for k_, og, _ in ex.obligations if k_ in ('bound', 'unwind')]))

    def d_use(m):
        mapping = map_wire(C, m, mp)
        b = str(m.eval(rid, model_completion=True).as_long()) if z3.is_true(m.eval(ok_in, model_completion=True)) else '-'
        mu = z3.is_true(m.eval(mutated, model_completion=True))
        line = 'use %s %s %d' % (mapping, b, 1 if mu else 0)
        mm = parse_map(mapping)
        want = 'ok' if b == '-' else ('poisoned' if int(b) not in mm else ('err530' if (mu and not mm[int(b)]) else 'ok'))
        return line, want
    text = 'using a variable is E530 iff it is mutated and declared immutable; an undeclared id is poisoned silently; a poisoned base passes'
    C.ask(ex, 'use:total', zand(in_model, zor(znot(g), *panics)), 'use_variable returns without panic', describe=d_use)
    C.ask(ex, 'use:verdict', zand(in_model, g, znot(expected)), text, describe=d_use)
    C.ask(ex, 'use:witness-e530', zand(in_model, g, ok_in, found, mutated, znot(mutable)), 'witness: a mutated immutable variable', 'witness')
    C.ask(ex, 'use:model-bounds', znot(in_model), 'the map model suffices', 'bounds')
    C.finish_ex(ex)

    # ---- the Assignment arm and the Deref arm
    for arm in ('assign', 'address', 'length'):
        ex = C.executor()
        mp = C.fresh_map(ex, arm + 'm')
        ref, R = C.fresh_reference(ex, arm + 'r')
        st = State()
        st.mem[(0, 'analyzer')] = C.analyzer(mp)
        t1 = time.time()
        try:
            if arm == 'assign':
                sdef = C.defs.find_enum('alpha::common::Statement')
                names = [n for n, _ in sdef.variant_by_name('Assignment')[2]]
                fs = [None] * len(names)
                fs[names.index('reference')] = ref
                fs[names.index('value')] = Opaque('in:expr:value')
                fs[names.index('location')] = z3.BitVec('assign.location', 8)
                val = EnumV(sdef, bv(sdef.variant_by_name('Assignment')[1], 64), {'Assignment': tuple(fs)})
                g, res = ex.call_function(impl_fn(dump, 'common::Statement'), [val, PlaceRef((0, 'analyzer'))], z3.BoolVal(True), st)
                keep, poison_variant = 'Assignment', 'Poison'
            else:
                xdef = C.defs.find_enum('alpha::common::Expression')
                variant = 'Deref' if arm == 'address' else 'LengthOfArray'
                names = [n for n, _ in xdef.variant_by_name(variant)[2]]
                fs = [None] * len(names)
                fs[names.index('reference')] = ref
                for other in names:
                    if other != 'reference':
                        fs[names.index(other)] = Opaque(other) if other == 'deref_type' else z3.BitVec('%s.%s' % (arm, other), 8)
                val = EnumV(xdef, bv(xdef.variant_by_name(variant)[1], 64), {variant: tuple(fs)})
                g, res = ex.call_function(expr_fn, [val, PlaceRef((0, 'analyzer'))], z3.BoolVal(True), st)
                keep, poison_variant = variant, 'Poison'
        except (Unsupported, PathAbort) as e:
            raise Inconclusive('cannot encode the %s arm of the mutability pass: %s' % (arm, e))
        C.exec_s += time.time() - t1
        rid = R['base_id'].fields[C.ridx]
        found, mutable = C.lookup(mp, rid)
        rdef_e = res.edef
        kept = res.discr == bv(rdef_e.variant_by_name(keep)[1], 64)
        is_poison = res.discr == bv(rdef_e.variant_by_name(poison_variant)[1], 64)
        nm, silent = C.poison_kind(res.variants[poison_variant][0]) if poison_variant in res.variants else (z3.BoolVal(False), z3.BoolVal(False))
        outer = znot(R['through_pointer'])
        mutated = outer if arm == 'assign' else (zand(R['depth'] != bv(0, 8), outer) if arm == 'address' else z3.BoolVal(False))
        # the kept statement/expression still carries the same base and address depth
        same_ref = z3.BoolVal(False)
        if keep in res.variants:
            out_ref = res.variants[keep][names.index('reference')]
            rnames = [f for f, _ in C.rdef.fields]
            ob = out_ref.fields[rnames.index('base')]
            same_ref = zand(ob.discr == ref.fields[rnames.index('base')].discr,
                            z3.Implies(R['base_ok'], ob.variants['Ok'][0].fields[C.ridx] == rid) if 'Ok' in ob.variants else z3.BoolVal(True),
                            out_ref.fields[rnames.index('address_depth')] == R['depth'],
                            out_ref.fields[rnames.index('steps')].f['len'] == R['n'])
        expected = zite(znot(R['base_ok']), zand(kept, same_ref),
                        zite(znot(found), zand(is_poison, silent),
                             zite(zand(mutated, znot(mutable)), zand(is_poison, nm), zand(kept, same_ref))))
        panics = [og for k_, og, _ in ex.obligations if k_ not in ('bound', 'unwind')]
        in_model = znot(zor(*[og for k_, og, _ in ex.obligations if k_ in ('bound', 'unwind')]))

        def d_arm(m, arm=arm, mp=mp, R=R, rid=rid):
            mapping = map_wire(C, m, mp)
            b = m.eval(rid, model_completion=True).as_long() if z3.is_true(m.eval(R['base_ok'], model_completion=True)) else None
            k = m.eval(R['n'], model_completion=True).as_long()
            steps = [step_wire(C, m, s) for s in R['steps'][:k]]
            ad = m.eval(R['depth'], model_completion=True).as_long()
            line = '%s %s %s %d %s' % (arm, mapping, '-' if b is None else b, ad, ' '.join(steps))
            mut_if = True if arm == 'assign' else (ad > 0 if arm == 'address' else False)
            return line.strip(), spec_ref(parse_map(mapping), b, steps, mut_if)
        text = {'assign': 'an assignment is rejected with E530 iff its base is declared immutable and the reference does not pass through a pointer '
                          '(autoderef or deslice by pointer); an undeclared base poisons it silently; otherwise it keeps its reference',
                'address': 'taking the address of a variable (address depth > 0) is E530 iff it is declared immutable and the reference does not '
                           'pass through a pointer; reading it never is',
                'length': 'taking the length of an array never needs mutability: only an undeclared base poisons it'}[arm]
        C.ask(ex, arm + ':total', zand(in_model, zor(znot(g), *panics)), 'the %s arm returns without panic' % arm, describe=d_arm)
        C.ask(ex, arm + ':verdict', zand(in_model, g, znot(expected)), text, describe=d_arm)
        if arm != 'length':
            C.ask(ex, arm + ':witness-e530', zand(in_model, g, R['base_ok'], found, mutated, znot(mutable), R['n'] == bv(C.K, 64)),
                  'witness: E530 through %d non-pointer steps' % C.K, 'witness')
        C.ask(ex, arm + ':witness-pointer', zand(in_model, g, R['base_ok'], found, znot(mutable), R['through_pointer'],
                                                 (R['depth'] != bv(0, 8)) if arm == 'address' else z3.BoolVal(True)),
              'witness: an immutable base mutated through a pointer', 'witness')
        C.ask(ex, arm + ':model-bounds', znot(in_model), 'the models suffice', 'bounds')
        C.finish_ex(ex)

        # native validation of this arm
        rng = random.Random(seed() * 61 + len(arm))
        reqs = []
        for _ in range(40 if tier == 'quick' else 200):
            mm = {i: rng.random() < 0.5 for i in rng.sample(range(1, 7), rng.randint(0, C.N))}
            b = rng.choice([None] + list(range(1, 7)))
            steps = [rng.choice(STEP_NAMES) for _ in range(rng.randint(0, C.K))]
            reqs.append((mm, b, rng.choice([0, 0, 1, 2]), steps))
        lines = [('%s %s %s %d %s' % (arm, ','.join('%d:%d' % (k, 1 if v else 0) for k, v in mm.items()) or '-', '-' if b is None else b, ad,
                                       ' '.join(steps))).strip() for mm, b, ad, steps in reqs]
        outs = native(lines)
        s2 = z3.Solver()
        s2.add(*ex.assumptions)
        bad = []
        slots = mp.f['slots'].fields
        for (mm, b, ad, steps), line, outl in zip(reqs, lines, outs):
            cons = [R['n'] == bv(len(steps), 64), R['depth'] == bv(ad, 8), R['base_ok'] == z3.BoolVal(b is not None)]
            if b is not None:
                cons.append(rid == bv(b, 32))
            items = list(mm.items())
            for i in range(C.N):
                if i < len(items):
                    cons += [slots[i].fields[0], slots[i].fields[1] == bv(items[i][0], 32), slots[i].fields[2].fields[1] == z3.BoolVal(items[i][1])]
                else:
                    cons.append(znot(slots[i].fields[0]))
            for s, nmv in zip(R['steps'], steps):
                bname = nmv.split(':')[0]
                cons.append(s.discr == bv(C.sdef.variant_by_name(bname)[1], 64))
                if bname == 'Autodeslice':
                    cons.append(s.variants['Autodeslice'][0].discr == bv(C.ddef.variant_by_name(nmv.split(':')[1])[1], 64))
            s2.push()
            s2.add(*cons)
            if s2.check() != z3.sat:
                s2.pop()
                continue
            m = s2.model()
            s2.pop()
            if not z3.is_true(m.eval(g, model_completion=True)):
                enc = 'PANIC'
            elif z3.is_true(m.eval(kept, model_completion=True)):
                enc = 'ok'
            elif z3.is_true(m.eval(nm, model_completion=True)):
                enc = 'err530'
            elif z3.is_true(m.eval(silent, model_completion=True)):
                enc = 'poisoned'
            else:
                enc = 'other'
            C.used += 1
            if enc != outl:
                bad.append((line, enc, outl))
        if bad:
            raise Inconclusive('encoding of the %s arm disagrees with the native pass: %r' % (arm, bad[:3]))

    # ---- every arm analyses its direct children
    traversal_clause(C)
    # ---- what declarations record
    declare_clauses(C)
    C.wall = time.time() - t0
    return C


STMT_ANALYZE = r'<(?:common::)?Statement as (?:\w+::)?Analyzable>::analyze$'


def leftovers(v, acc=None):
    """Tags of input expressions/statements (Opaque 'in:...') that occur in a value."""
    if acc is None:
        acc = []
    if isinstance(v, Opaque):
        if v.tag.startswith('in:'):
            acc.append(v.tag)
    elif isinstance(v, (BoxV, BoxPtr)):
        leftovers(v.content, acc)
    elif isinstance(v, ValRef):
        leftovers(v.val, acc)
    elif isinstance(v, Agg):
        for f in v.fields:
            leftovers(f, acc)
    elif isinstance(v, EnumV):
        for fs in v.variants.values():
            for f in fs:
                leftovers(f, acc)
    elif isinstance(v, Model):
        for f in v.f.values():
            leftovers(f, acc)
    return acc


def traversal_clause(C):
    """For every Expression and Statement variant: the pass hands every direct child expression/statement to the analysis
    (havoc here) and returns none of them unanalysed - so no E530 inside a sub-expression can be skipped.  Children are opaque
    values, so the result holds for arbitrary children; there is nothing left for a solver to decide (no branch depends on
    them), the verdict is read off the symbolically executed result."""
    dump = C.dump
    xdef = C.defs.find_enum('alpha::common::Expression')
    sdef = C.defs.find_enum('alpha::common::Statement')
    expr_fn = impl_fn(dump, 'common::Expression')
    stmt_fn = impl_fn(dump, 'common::Statement')

    def build(ex, ty, tag):
        t = ty.replace('alpha::common::', '').replace('common::', '').strip()
        if t == 'Box<Expression>':
            return BoxV(Opaque('in:expr:' + tag))
        if t == 'Expression':
            return Opaque('in:expr:' + tag)
        if t == 'Box<Statement>':
            return BoxV(Opaque('in:stmt:' + tag))
        if t == 'Option<Expression>':
            return EnumV(C.defs.find_enum('Option'), bv(1, 64), {'None': (), 'Some': (Opaque('in:expr:' + tag),)})
        if t in ('Vec<Expression>', 'Vec<Statement>', 'Vec<MemberExpression>'):
            inner = t[4:-1]
            return Model('vec', items=Agg([build(ex, inner, tag + '[0]'), None], 'vecitems'), len=bv(1, 64), cap=bv(1, 64))
        if t == 'Option<Else>':
            return EnumV(C.defs.find_enum('Option'), bv(1, 64), {'None': (), 'Some': (build(ex, 'Else', tag),)})
        if t in ('Array', 'MemberExpression', 'Comparison', 'Block', 'Else'):
            sd = C.defs.find_struct('alpha::common::' + t)
            return Agg([build(ex, ft, '%s.%s' % (tag, f)) for f, ft in sd.fields], sd.name)
        if t == 'Reference':
            return C.fresh_reference(ex, 'tr.' + tag)[0]
        if t in ('Location', 'String'):
            return z3.BitVec('tr.%s' % tag, 8)
        for cand in ('alpha::common::' + t, ty):
            try:
                v = ex.fresh_value(cand, 'tr.' + tag, depth=1, expand=lambda b: b in ('Option', 'Result', 'ValueType', 'Poison', 'Identifier'))
            except (KeyError, Unsupported):
                continue
            if not isinstance(v, Opaque):
                return v
        return Opaque('other:' + tag)

    for edef, fn, kind in ((xdef, expr_fn, 'Expression'), (sdef, stmt_fn, 'Statement')):
        for vname, d, fields in edef.variants:
            if not fields or vname == 'Poison':
                continue
            ex = C.executor(loop_bound=4)
            ex.havoc_patterns = [EXPR_ANALYZE, STMT_ANALYZE]
            mp = C.fresh_map(ex, 'tr%s%s' % (kind, vname))
            none = EnumV(C.defs.find_enum('Option'), bv(0, 64), {'None': ()})
            # type annotations do not matter for the traversal: absent
            vals = tuple(none if (f in ('value_type', 'deref_type', 'element_type', 'return_type', 'builtin') and ft.strip().startswith('Option<'))
                         else build(ex, ft, '%s.%s' % (vname, f or i)) for i, (f, ft) in enumerate(fields))
            inputs = leftovers(Agg(list(vals)))
            val = EnumV(edef, bv(d, 64), {vname: vals})
            st = State()
            st.mem[(0, 'analyzer')] = C.analyzer(mp)
            t1 = time.time()
            try:
                g, res = ex.call_function(fn, [val, PlaceRef((0, 'analyzer'))], z3.BoolVal(True), st)
            except (Unsupported, PathAbort) as e:
                raise Inconclusive('cannot encode the %s::%s arm of the mutability pass: %s' % (kind, vname, e))
            C.exec_s += time.time() - t1
            left = leftovers(res)
            name = 'traversal:%s::%s' % (kind, vname)
            text = ('the %s::%s arm hands each of its %d direct child expressions/statements to the analysis and returns none of them '
                    'unanalysed' % (kind, vname, len(inputs)))
            q = {'name': name, 'result': 'unsat' if not left else 'sat', 'seconds': 0.0, 'statement': text,
                 'children': inputs, 'decided_by': 'symbolic execution with opaque children (no solver query needed)'}
            C.queries.append(q)
            C.finish_ex(ex)
            if not left:
                continue
            field = left[0].split(':')[2].split('.')[1].split('[')[0] if left[0].count(':') >= 2 else '?'
            line = 'wrap 3:0 3 %s:%s' % (vname, field)
            if kind != 'Expression':
                C.unconfirmed.append('%s: child %s is returned unanalysed (no native replay for statements)' % (name, left[0]))
                continue
            try:
                got = native([line])[0]
            except Inconclusive:
                got = 'PANIC'
            q['counterexample'] = {'request': line, 'native': got, 'expected': 'err530'}
            if got != 'ok':
                C.unconfirmed.append('counterexample of %s does not reproduce natively: %s -> %s' % (name, line, got))
                continue
            C.pending.append((name, text, line, got))


def conc_type(C, m, x):
    """Concrete type (identifiers by resolution id) denoted by the symbolic type x in model m."""
    d = m.eval(x.discr, model_completion=True).as_long()
    _, v, fields = x.edef.variant_by_discr(d)
    out = [v]
    for sf in x.variants.get(v, ()):
        if isinstance(sf, (BoxV, BoxPtr)):
            out.append(conc_type(C, m, sf.content) if sf.content is not None else ('Void',))
        elif isinstance(sf, Agg):
            out.append(m.eval(sf.fields[C.ridx], model_completion=True).as_long())
        elif isinstance(sf, EnumV):
            some = m.eval(sf.discr, model_completion=True).as_long() == 1
            out.append(m.eval(sf.variants['Some'][0].fields[C.ridx], model_completion=True).as_long() if some else None)
        else:
            out.append(m.eval(sf, model_completion=True).as_long())
    return tuple(out)


def native_typer(lines):
    """Requests that need the type parser go through pv_replay typer-eval."""
    replay.write_generated({})
    binary, _ = replay.build()
    rc, out, err = replay.run(binary, ['typer-eval'], stdin='\n'.join(lines) + '\n')
    if rc != 0:
        raise Inconclusive('native evaluation failed: ' + err[-300:])
    return out.split('\n')[:len(lines)]


def declare_clauses(C):
    dump = C.dump
    import vtlib
    vt = 'alpha::value_type::ValueType<common::Identifier>'
    rdef = C.defs.find_enum('Result')
    odef = C.defs.find_enum('Option')
    for form in ('local', 'parameter', 'member', 'constant'):
        ex = C.executor()
        ex.abstract_types['Identifier'] = None
        ex.abstract_types = {k: v for k, v in ex.abstract_types.items() if v is not None}
        mp = C.fresh_map(ex, form + 'm')
        name = ex.fresh_value('alpha::common::Identifier', form + '.name', depth=1)
        vtype = ex.fresh_value(vt, form + '.type', depth=3, expand=lambda b: b in ('ValueType', 'Option', 'Result', 'Identifier'))
        type_ok = z3.Bool(form + '.type_ok')
        ptype = EnumV(rdef, zite(type_ok, bv(0, 64), bv(1, 64)),
                      {'Ok': (vtype,), 'Err': (EnumV(C.pdef, bv(C.pdef.variant_by_name('Poisoned')[1], 64), {'Poisoned': ()}),)})
        st = State()
        st.mem[(0, 'analyzer')] = C.analyzer(mp)
        t1 = time.time()
        try:
            if form == 'local':
                sdef = C.defs.find_enum('alpha::common::Statement')
                names = [n for n, _ in sdef.variant_by_name('Declaration')[2]]
                has_type = z3.Bool('local.has_type')
                fs = [None] * len(names)
                fs[names.index('name')] = name
                fs[names.index('value')] = EnumV(odef, z3.BitVec('local.has_value', 64) & bv(1, 64), {'None': (), 'Some': (Opaque('init'),)})
                fs[names.index('value_type')] = EnumV(odef, zite(has_type, bv(1, 64), bv(0, 64)), {'None': (), 'Some': (ptype,)})
                fs[names.index('location')] = z3.BitVec('local.location', 8)
                val = EnumV(sdef, bv(sdef.variant_by_name('Declaration')[1], 64), {'Declaration': tuple(fs)})
                g, _r = ex.call_function(impl_fn(dump, 'common::Statement'), [val, PlaceRef((0, 'analyzer'))], z3.BoolVal(True), st)
                VT = lambda *ns: zor(*[vtype.discr == bv(vtype.edef.variant_by_name(n)[1], 64) for n in ns])
                expect_mut = znot(zand(has_type, type_ok, VT('Slice', 'SlicePointer', 'View')))
                declared = z3.BoolVal(True)
            elif form in ('parameter', 'member'):
                sd = C.defs.find_struct('alpha::common::' + ('Parameter' if form == 'parameter' else 'Member'))
                name_ok = z3.Bool(form + '.name_ok')
                fs = []
                for f, ft in sd.fields:
                    if f == 'name':
                        fs.append(EnumV(rdef, zite(name_ok, bv(0, 64), bv(1, 64)),
                                        {'Ok': (name,), 'Err': (EnumV(C.pdef, bv(C.pdef.variant_by_name('Poisoned')[1], 64), {'Poisoned': ()}),)}))
                    elif f == 'value_type':
                        fs.append(ptype)
                    else:
                        fs.append(z3.BitVec('%s.%s' % (form, f), 8))
                val = Agg(fs, sd.name)
                g, _r = ex.call_function(impl_fn(dump, 'common::' + sd.name), [val, PlaceRef((0, 'analyzer'))], z3.BoolVal(True), st)
                expect_mut = znot(type_ok) if form == 'parameter' else z3.BoolVal(True)
                declared = name_ok
            else:
                ddef = C.defs.find_enum('alpha::common::Declaration')
                fs = []
                for f, ft in ddef.variant_by_name('Constant')[2]:
                    if f == 'name':
                        fs.append(name)
                    elif f == 'value_type':
                        fs.append(ptype)
                    else:
                        fs.append(Opaque('constant.' + f))
                val = EnumV(ddef, bv(ddef.variant_by_name('Constant')[1], 64), {'Constant': tuple(fs)})
                g, _r = ex.call_function(impl_fn(dump, 'common::Declaration'), [val, PlaceRef((0, 'analyzer'))], z3.BoolVal(True), st)
                expect_mut = znot(type_ok)
                declared = z3.BoolVal(True)
        except (Unsupported, PathAbort) as e:
            raise Inconclusive('cannot encode the %s declaration of the mutability pass: %s' % (form, e))
        C.exec_s += time.time() - t1
        post = st.mem[(0, 'analyzer')].fields[0]
        rid = name.fields[C.ridx]
        found, mutable = C.lookup(post, rid)
        # every other entry is untouched
        others = []
        probe = z3.BitVec(form + '.probe', 32)
        f0, m0 = C.lookup(mp, probe)
        f1, m1 = C.lookup(post, probe)
        untouched = z3.Implies(zor(probe != rid, znot(declared)), zand(f0 == f1, z3.Implies(f0, m0 == m1)))
        panics = [og for k_, og, _ in ex.obligations if k_ not in ('bound', 'unwind')]
        in_model = znot(zor(*[og for k_, og, _ in ex.obligations if k_ in ('bound', 'unwind')]))
        text = {'local': 'a local variable is recorded as mutable unless its declared type is an array view, a slice pointer or a view',
                'parameter': 'a parameter is recorded as immutable (mutable only when its type is already an error, to avoid cascades)',
                'member': 'a structure member is recorded as mutable',
                'constant': 'a constant is recorded as immutable (mutable only when its type is already an error)'}[form]
        C.ask(ex, 'declare:%s:total' % form, zand(in_model, zor(znot(g), *panics)), 'the %s declaration returns without panic' % form)
        form_no = {'parameter': 0, 'member': 1, 'constant': 2, 'local': 3}[form]

        def d_decl(m, form_no=form_no, vtype=vtype, type_ok=type_ok, form=form):
            ok_t = z3.is_true(m.eval(type_ok, model_completion=True))
            if form == 'local' and not z3.is_true(m.eval(has_type, model_completion=True)):
                return None, None
            ct = conc_type(C, m, vtype) if ok_t else None
            line = 'declared %d %s' % (form_no, vtlib.wire(ct) if ct is not None else 'err')
            if form == 'member':
                want = 'mutable'
            elif form == 'local':
                want = 'immutable' if (ct is not None and ct[0] in ('Slice', 'SlicePointer', 'View')) else 'mutable'
            else:
                want = 'mutable' if ct is None else 'immutable'
            return line, want
        C.ask(ex, 'declare:%s:recorded' % form, zand(in_model, g, declared, znot(zand(found, mutable == expect_mut))), text,
              describe=d_decl, native_fn=native_typer)
        C.ask(ex, 'declare:%s:frame' % form, zand(in_model, g, znot(untouched)), 'no other entry of the map changes (%s)' % form)
        C.ask(ex, 'declare:%s:witness' % form, zand(in_model, g, declared, znot(expect_mut)) if form != 'member' else zand(in_model, g, declared),
              'witness: a %s declaration recorded as %s' % (form, 'mutable' if form == 'member' else 'immutable'), 'witness')
        C.ask(ex, 'declare:%s:model-bounds' % form, znot(in_model), 'the map model suffices', 'bounds')
        C.finish_ex(ex)
