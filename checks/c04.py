"""C04 (label scoping pass): a `goto` is accepted only if a label of that name appears later in the same block or
later in an enclosing block of the same function body (E400 otherwise); a label that shares its name with a later
label of the same block or of an enclosing block is rejected (E420).  src/alpha/scoper/label_references.rs is
symbolically executed on a symbolic function body and its output tree is compared node by node with this rule."""
import os
import random
import re
import time
import z3

from common import REPO, log, mir_dump, write_evidence, write_replay, known_keys, Inconclusive, seed
import replay
from mirparse import MirDump
from rustdefs import RustDefs
from mirsym import Executor, State, PlaceRef, EnumV, BoxV, Agg, Model, Unsupported, bv, zand, zor, znot
import mirmodels
import c06

PROP = 'C04'
CODES = {'UndefinedLabel': 400, 'DuplicateDeclarationLabel': 420}
C16 = c06.C16


def native(lines):
    replay.write_generated({})
    binary, _ = replay.build()
    rc, out, err = replay.run(binary, ['label-eval'], stdin='\n'.join(lines) + '\n')
    if rc != 0:
        raise Inconclusive('native label scoping failed: ' + err[-300:])
    res = out.split('\n')[:len(lines)]
    if len(res) != len(lines):
        raise Inconclusive('native label scoping: %d answers for %d requests' % (len(res), len(lines)))
    return res


class LTree(c06.Tree):
    def __init__(self, defs):
        super().__init__(defs)
        self.goto_names = [n for n, _ in self.sdef.variant_by_name('Goto')[2]]
        self.label_names = [n for n, _ in self.sdef.variant_by_name('Label')[2]]
        idef = defs.find_struct('alpha::common::Identifier')
        self.name_idx = [f for f, _ in idef.fields].index('name')

    def name_of(self, s, kind):
        f = s.variants.get(kind)
        names = self.goto_names if kind == 'Goto' else self.label_names
        return f[names.index('label')].fields[self.name_idx]

    def error_code(self, s):
        f = s.variants.get('Poison')
        if f is None or 'Error' not in f[0].variants:
            return C16(0)
        key = ('l', id(s))
        hit = self._code_memo.get(key)
        if hit is not None:
            return hit[0]
        p = f[0]
        e = p.variants['Error'][0]
        is_err = zand(self.is_(s, 'Poison'), p.discr == bv(self.pdef.variant_by_name('Error')[1], 64))
        code = C16(999)
        for name, c in CODES.items():
            code = z3.If(e.discr == bv(self.edef.variant_by_name(name)[1], 64), C16(c), code)
        r = z3.If(is_err, code, C16(0))
        self._code_memo[key] = (r, s)
        return r


def visible(T, name, ctx):
    """A label called `name` appears later in the same block or later in an enclosing block."""
    alts = []
    for items, ln, idx in ctx:
        for j in range(idx + 1, len(items)):
            x = items[j]
            if x is None or 'Label' not in x.variants:
                continue
            alts.append(zand(z3.ULT(bv(j, 64), ln), T.is_(x, 'Label'), T.name_of(x, 'Label') == name))
    return zor(*alts)


def agree(T, a, b, ctx):
    if a is None or b is None:
        return z3.BoolVal(True)
    cs = []
    if 'Goto' in a.variants:
        vis = visible(T, T.name_of(a, 'Goto'), ctx)
        cs.append(z3.Implies(T.is_(a, 'Goto'), z3.If(vis, T.is_(b, 'Goto'), T.error_code(b) == C16(400))))
    if 'Label' in a.variants:
        vis = visible(T, T.name_of(a, 'Label'), ctx)
        cs.append(z3.Implies(T.is_(a, 'Label'), z3.If(vis, T.error_code(b) == C16(420), T.is_(b, 'Label'))))
    cs.append(z3.Implies(znot(T.is_(a, 'Goto', 'Label')), b.discr == a.discr))
    ta, tb = T.then_of(a), T.then_of(b)
    if ta is not None and tb is not None:
        cs.append(z3.Implies(T.is_(a, 'If'), agree(T, ta, tb, ctx)))
    (pa, ea), (pb, eb) = T.else_of(a), T.else_of(b)
    if pa is not None and pb is not None:
        cs.append(z3.Implies(T.is_(a, 'If'), pa == pb))
        if ea is not None and eb is not None:
            cs.append(z3.Implies(zand(T.is_(a, 'If'), pa), agree(T, ea, eb, ctx)))
    (ia, la), (ib, lb) = T.block_of(a), T.block_of(b)
    if ia is not None and ib is not None:
        cs.append(z3.Implies(T.is_(a, 'Block'), la == lb))
        for i, x in enumerate(ia):
            if x is None or i >= len(ib) or ib[i] is None:
                continue
            cs.append(z3.Implies(zand(T.is_(a, 'Block'), z3.ULT(bv(i, 64), la)), agree(T, x, ib[i], [(ia, la, i)] + ctx)))
    return zand(*cs)


def wellformed_input(T, s, branch=None):
    """Inputs as the parser and the syntax pass leave them: no poisoned statements, if-branches are a goto or a
    braced block (an else-branch may be another if)."""
    if s is None:
        return z3.BoolVal(True)
    cs = [znot(T.is_(s, 'Poison'))]
    if branch == 'then':
        cs.append(T.is_(s, 'Goto', 'Block'))
    if branch == 'else':
        cs.append(T.is_(s, 'Goto', 'Block', 'If'))
    t = T.then_of(s)
    if t is not None:
        cs.append(z3.Implies(T.is_(s, 'If'), wellformed_input(T, t, 'then')))
    p, e = T.else_of(s)
    if e is not None:
        cs.append(z3.Implies(zand(T.is_(s, 'If'), p), wellformed_input(T, e, 'else')))
    items, ln = T.block_of(s)
    for i, x in enumerate(items or []):
        if x is not None:
            cs.append(z3.Implies(zand(T.is_(s, 'Block'), z3.ULT(bv(i, 64), ln)), wellformed_input(T, x)))
    return zand(*cs)


def wire(T, m, s):
    d = m.eval(s.discr, model_completion=True).as_long()
    name = T.sdef.variant_by_discr(d)[1]
    if name == 'Goto':
        return 'G%d' % m.eval(T.name_of(s, 'Goto'), model_completion=True).as_long()
    if name == 'Label':
        return 'T%d' % m.eval(T.name_of(s, 'Label'), model_completion=True).as_long()
    if name in c06.LEAF:
        return c06.LEAF[name]
    if name == 'Poison':
        c = m.eval(T.error_code(s), model_completion=True).as_long()
        return 'P' if c == 0 else 'E%d' % c
    if name == 'If':
        t = T.then_of(s)
        p, e = T.else_of(s)
        r = 'I(' + (wire(T, m, t) if t is not None else 'D')
        if p is not None and z3.is_true(m.eval(p, model_completion=True)) and e is not None:
            r += ';' + wire(T, m, e)
        return r + ')'
    items, ln = T.block_of(s)
    n = m.eval(ln, model_completion=True).as_long()
    return 'B(' + ','.join(wire(T, m, items[i]) for i in range(n)) + ')'


def strip_names(w):
    return re.sub(r'([GT])\d+', r'\1', w)


def configs(tier):
    if os.environ.get('C04_BOUNDS'):
        return [tuple(int(x) for x in os.environ['C04_BOUNDS'].split(','))]
    return [(3, 2)] if tier == 'quick' else [(3, 3), (4, 2), (5, 1)]


def run(tier):
    t0 = time.time()
    parts = [run_config(tier, d, w) for d, w in configs(tier)]
    pending = [p for r in parts for p in r['pending']]
    unconfirmed = [u for r in parts for u in r['unconfirmed']]
    if unconfirmed and not pending:
        # a solver assignment that the real pass does not reproduce says the encoding (or a model bound) is wrong for
        # this tree: nothing is reported about the code
        raise Inconclusive('; '.join(unconfirmed[:3]))
    known = known_keys(PROP)
    out_v = []
    for qname, text, line, got_ in pending:
        key = '%s:%s' % (qname, line)
        what = '%s fails for body [%s]: the label pass gives [%s] (%s)' % (qname, line, got_, text)
        if key in known:
            log('KNOWN-FINDING: property=%s %s' % (PROP, what))
            continue
        rp = write_replay(PROP, key, {'property': PROP, 'query': qname, 'statement': text, 'body': line, 'native': got_,
                                      'how': 'echo "%s" | pv_replay label-eval' % line})
        out_v.append((what, rp))
    wall = time.time() - t0
    queries = [q for r in parts for q in r['queries']]
    used = sum(r['used'] for r in parts)
    bounds_txt = ', '.join('depth <= %d with up to %d statements per body/block' % (r['depth'], r['width']) for r in parts)
    models = {}
    for r in parts:
        for k, v in r['models'].items():
            models[k] = models.get(k, 0) + v
    cov = {
        'states': max(1, sum(r['blocks'] for r in parts)), 'transitions': max(1, sum(r['loops'] for r in parts)),
        'traces_validated_against_impl': used, 'samples': queries,
        'explanation': 'label_references::analyze (Analyzable for Declaration/FunctionBody/Block/Statement with Analyzer::declare_label/'
                       'use_label/push_scope/pop_scope) symbolically executed from MIR on a symbolic function body: statement trees of '
                       '%s (symbolic lengths), label names as 8-bit tokens; the output tree is compared node by node with the '
                       'visibility rule.' % bounds_txt,
        'functions_encoded': sorted(set(f for r in parts for f in r['functions'])),
        'bounds': {'configurations': [{'nesting_depth': r['depth'], 'statements_per_block': r['width']} for r in parts],
                   'outside': 'deeper or wider bodies; several functions'},
        'queries_discharged': len(queries), 'queries_unsat': len([q for q in queries if q['result'] == 'unsat']),
        'solver_time_s': round(sum(r['solver_s'] for r in parts), 3), 'symbolic_execution_s': round(sum(r['exec_s'] for r in parts), 3),
        'mir_dump_s': round(parts[0]['dump_s'], 2),
        'std_models_used': models,
        'outside_claim': ['jumps into another function (one body is analysed)', 'the generator', 'if-branches that are neither goto nor block (rejected by the syntax pass, C06)'],
    }
    write_evidence(PROP, tier, 'model_checking', cov, wall,
                   ['rustc nightly MIR dump', 'mirsym and its models (owned reversed Vec iteration, nested Vec as label stack, slice find)',
                    'label names are compared as opaque tokens (String equality)',
                    'inputs are restricted to bodies whose if-branches are goto/block (else: also if) and that contain no poisoned statement',
                    'native validation through the guarded hook scoper::verif_label_analyze'], violations=len(out_v))
    log('%s: %s, %d queries (%d unsat), %d native comparisons, exec %.1fs, solver %.1fs, wall %.1fs'
        % (PROP, ' + '.join('depth %d width %d' % (r['depth'], r['width']) for r in parts), len(queries), cov['queries_unsat'], used,
           cov['symbolic_execution_s'], cov['solver_time_s'], wall))
    for what, rp in out_v:
        log('VIOLATION property=%s replay=%s' % (PROP, rp))
        log('  ' + what)
    return 1 if out_v else 0


def run_config(tier, depth, width):
    t0 = time.time()
    path, dump_s = mir_dump()
    dump = MirDump(path)
    defs = RustDefs(os.path.join(REPO, 'src'))
    T = LTree(defs)
    ex = Executor(dump, defs, loop_bound=depth + 3)
    ex.abstract_types = {'String': 8}
    ex.vec_input_slots = width
    ex.vec_new_slots = width + 1
    body = ex.fresh_value('alpha::common::FunctionBody', 'body', depth=depth, expand=lambda b: b in c06.EXPAND)
    # entry point: label_references::analyze(program) - the pass builds its own Analyzer
    if 'label_references::analyze' not in dump.fn_index:
        raise Inconclusive('label_references::analyze not found in the MIR dump')
    ddef = defs.find_enum('alpha::common::Declaration')
    rdef = defs.find_enum('Result')
    ffields = []
    from mirsym import Opaque
    for fname, ft in ddef.variant_by_name('Function')[2]:
        if fname == 'body':
            ffields.append(EnumV(rdef, bv(0, 64), {'Ok': (body,)}))
        else:
            ffields.append(Opaque(fname))
    decl = EnumV(ddef, bv(ddef.variant_by_name('Function')[1], 64), {'Function': tuple(ffields)})
    program = Model('vec', items=Agg([decl, None], 'vecitems'), len=bv(1, 64), cap=bv(1, 64))
    ex.vec_new_slots = max(width + 1, depth + 2)
    st = State()
    try:
        g, outp = ex.call_function(dump.get('label_references::analyze'), [program], z3.BoolVal(True), st)
    except Unsupported as e:
        raise Inconclusive('cannot encode the label scoping pass: %s' % e)
    exec_s = time.time() - t0 - dump_s
    if os.environ.get('VERIF_DEBUG'):
        import resource
        log('  exec %.1fs, maxrss %d MB, blocks %d' % (exec_s, resource.getrusage(resource.RUSAGE_SELF).ru_maxrss // 1024, ex.stats['blocks']))
    try:
        od = outp.f['items'].fields[0]
        out = od.variants['Function'][[f for f, _ in ddef.variant_by_name('Function')[2]].index('body')].variants['Ok'][0]
    except (KeyError, AttributeError, IndexError, TypeError):
        raise Inconclusive('the label pass did not return the function it was given')
    sdef = defs.find_struct('alpha::common::FunctionBody')
    si = [f for f, _ in sdef.fields].index('statements')
    vin, vout = body.fields[si], out.fields[si]
    if vout.f.get('rev', False):
        raise Inconclusive('the pass returns its statements in reverse order')
    items_in, items_out = vin.f['items'].fields, vout.f['items'].fields
    n_in, n_out = vin.f['len'], vout.f['len']
    pre = zand(*[z3.Implies(z3.ULT(bv(i, 64), n_in), wellformed_input(T, x)) for i, x in enumerate(items_in) if x is not None])
    ok = [n_in == n_out]
    for i, x in enumerate(items_in):
        if x is None or i >= len(items_out) or items_out[i] is None:
            continue
        ok.append(z3.Implies(z3.ULT(bv(i, 64), n_in), agree(T, x, items_out[i], [(list(items_in), n_in, i)])))
    queries, pending = [], []
    solver_s = 0.0

    def body_wire(m, items, ln):
        n = m.eval(ln, model_completion=True).as_long()
        return ' '.join(wire(T, m, items[i]) for i in range(n))

    def ask(qname, formula, text):
        nonlocal solver_s
        s = z3.Solver()
        s.add(*ex.assumptions)
        s.add(pre)
        s.add(formula)
        t = time.time()
        r = s.check()
        dt = time.time() - t
        solver_s += dt
        if r == z3.unknown:
            raise Inconclusive('z3 answered unknown on %s' % qname)
        q = {'name': qname, 'result': str(r), 'seconds': round(dt, 3), 'statement': text}
        queries.append(q)
        if os.environ.get('VERIF_DEBUG'):
            import resource
            log('  %s: %s %.1fs, maxrss %d MB' % (qname, r, dt, resource.getrusage(resource.RUSAGE_SELF).ru_maxrss // 1024))
        if r == z3.sat:
            m = s.model()
            line = body_wire(m, items_in, n_in)
            enc = strip_names(body_wire(m, items_out, n_out))
            got = native([line])[0]
            q['counterexample'] = {'body': line, 'native': got, 'encoding': enc}
            if qname == 'model-bounds':
                q['confirmed'] = False
                unconfirmed.append('the bounded Vec/loop model is exceeded on [%s]' % line)
                return
            confirmed = (got == 'PANIC') if qname == 'label-pass-total' else (got == enc)
            q['confirmed'] = confirmed
            if not confirmed:
                unconfirmed.append('counterexample [%s] of %s does not reproduce natively: native [%s], encoding [%s]' % (line, qname, got, enc))
                return
            pending.append((qname, text, line, got))

    unconfirmed = []
    panics = [og for k_, og, _ in ex.obligations if k_ not in ('bound', 'unwind')]
    in_model = znot(zor(*[og for k_, og, _ in ex.obligations if k_ in ('bound', 'unwind')]))
    ask('label-pass-total', zand(in_model, zor(znot(g), *panics)), 'the label pass returns for every statement tree within the bound, without panic')
    ask('label-visibility', zand(g, in_model, znot(zand(*ok))),
        'goto resolves iff a label of that name is later in the same or an enclosing block (E400); a label clashing with such a later label is E420; nothing else changes')
    ask('model-bounds', znot(in_model), 'the slots of the Vec models and the loop unrollings suffice for every statement tree within the bound')

    # native validation of the encoding on random trees
    rng = random.Random(seed() * 29 + 5)

    def rnd(dd, branch=None):
        r = rng.random()
        if branch == 'then' or (branch == 'else' and r < 0.7):
            return ('G%d' % rng.randint(1, 2)) if (dd <= 0 or rng.random() < 0.5) else 'B(' + ','.join(rnd(dd - 1) for _ in range(rng.randint(0, width))) + ')'
        if dd <= 0 or r < 0.55:
            return rng.choice(['D', 'L', 'G1', 'G2', 'T1', 'T2', 'T1', 'G1'])
        if r < 0.75:
            return 'I(' + rnd(dd - 1, 'then') + (';' + rnd(dd - 1, 'else') if rng.random() < 0.5 else '') + ')'
        return 'B(' + ','.join(rnd(dd - 1) for _ in range(rng.randint(0, width))) + ')'
    lines = [' '.join(rnd(depth - 1) for _ in range(rng.randint(1, width))) for _ in range(80 if tier == 'quick' else 500)]
    lines += ['G1 T1', 'T1 G1', 'G1 B(T1)', 'B(G1) T1', 'T1 T1', 'T1 B(T1) T2', 'I(G2;B(G1,T1)) T2', 'B(T1,B(G1,T1)) T1']
    got = native(lines)
    s2 = z3.SolverFor('QF_BV')
    s2.add(*ex.assumptions)
    bad, used = [], 0
    t_val = time.time()
    for line, r_n in zip(lines, got):
        if used >= 60 and time.time() - t_val > (90 if tier == 'quick' else 240):
            break           # big encodings: every comparison is a solver call; the sample is time-boxed
        cons = []
        parts = line.split(' ')
        if len(parts) > width:
            continue
        try:
            cons.append(n_in == bv(len(parts), 64))
            for x, txt in zip(items_in, parts):
                bind(T, x, txt, cons)
        except ValueError:
            continue
        s2.push()
        s2.add(*cons)
        if s2.check() != z3.sat:
            s2.pop()
            continue
        enc = strip_names(body_wire(s2.model(), items_out, n_out))
        s2.pop()
        used += 1
        if enc != r_n:
            bad.append((line, enc, r_n))
    if bad:
        raise Inconclusive('encoding disagrees with the native label pass: %r' % bad[:3])

    for q in queries:
        q['name'] += '@depth%d,width%d' % (depth, width)
    return {'depth': depth, 'width': width, 'queries': queries, 'pending': pending, 'unconfirmed': unconfirmed, 'used': used,
            'blocks': int(ex.stats['blocks']), 'loops': int(ex.stats['loop_iterations']), 'models': {k: int(v) for k, v in ex.used_models.items()},
            'functions': list(ex.inlined), 'solver_s': solver_s, 'exec_s': exec_s, 'dump_s': dump_s}


def bind(T, s, txt, cons):
    if s is None:
        raise ValueError('too deep')
    m = re.fullmatch(r'([GT])(\d+)', txt)
    if m:
        kind = 'Goto' if m.group(1) == 'G' else 'Label'
        cons.append(s.discr == bv(T.d[kind], 64))
        cons.append(T.name_of(s, kind) == z3.BitVecVal(int(m.group(2)), 8))
        return
    if txt[0] in 'IB':
        # reuse the structural binding of C06, with this module's leaf handling
        return c06_bind(T, s, txt, cons)
    return c06.bind(T, s, txt, cons)


def c06_bind(T, s, txt, cons):
    c = txt[0]
    if c == 'I':
        cons.append(s.discr == bv(T.d['If'], 64))
        inner = txt[2:-1]
        depth, k = 0, -1
        for i, ch in enumerate(inner):
            if ch == '(':
                depth += 1
            elif ch == ')':
                depth -= 1
            elif ch == ';' and depth == 0:
                k = i
                break
        p, e = T.else_of(s)
        if k < 0:
            bind(T, T.then_of(s), inner, cons)
            cons.append(znot(p))
        else:
            bind(T, T.then_of(s), inner[:k], cons)
            cons.append(p)
            bind(T, e, inner[k + 1:], cons)
        return
    cons.append(s.discr == bv(T.d['Block'], 64))
    inner = txt[2:-1]
    parts, depth, cur = [], 0, ''
    for ch in inner:
        if ch == ',' and depth == 0:
            parts.append(cur)
            cur = ''
            continue
        if ch == '(':
            depth += 1
        elif ch == ')':
            depth -= 1
        cur += ch
    if cur:
        parts.append(cur)
    items, ln = T.block_of(s)
    if items is None or len(parts) > len([x for x in items if x is not None]):
        raise ValueError('too wide')
    cons.append(ln == bv(len(parts), 64))
    for x, ptxt in zip(items, parts):
        bind(T, x, ptxt, cons)


def replay_file(path):
    import json
    r = json.load(open(path))
    got = native([r['body']])[0]
    log('label pass on [%s]: [%s] (recorded [%s])' % (r['body'], got, r['native']))
    if got == r['native']:
        log('VIOLATION property=%s replay=%s' % (PROP, path))
        return 1
    return 0
