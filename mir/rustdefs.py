"""Scrape enum and struct definitions from /repo's current Rust sources.

The MIR dump names variants (`(_1 as Some)`, `BaseToken::Comma`) but does not
define enums; discriminant values and field types come from the source, read
anew on every run.  Only the syntax rustfmt-style code uses is supported;
anything else raises.
"""
import os
import re

from mirparse import split_top, match_paren, norm_type, find_top


def strip_comments(src):
    out = []
    i, n = 0, len(src)
    while i < n:
        c = src[i]
        if src.startswith('//', i):
            j = src.find('\n', i)
            i = n if j < 0 else j
            continue
        if src.startswith('/*', i):
            j = src.find('*/', i)
            i = n if j < 0 else j + 2
            continue
        if c == '"':
            j = i + 1
            while j < n and src[j] != '"':
                if src[j] == '\\':
                    j += 1
                j += 1
            out.append('""')
            i = j + 1
            continue
        if c == "'":
            m = re.match(r"'(\\.[^']*|[^'\\])'", src[i:])
            if m:
                out.append("' '")
                i += m.end()
                continue
        out.append(c)
        i += 1
    return ''.join(out)


def strip_attrs(body):
    # remove #[...] attributes (balanced)
    out = []
    i, n = 0, len(body)
    while i < n:
        if body.startswith('#[', i) or body.startswith('#![', i):
            k = body.index('[', i)
            j = match_paren(body, k)
            i = j + 1
            continue
        out.append(body[i])
        i += 1
    return ''.join(out)


class EnumDef:
    def __init__(self, name, generics, module, file):
        self.name, self.generics, self.module, self.file = name, generics, module, file
        self.variants = []   # (vname, discr, [(fname_or_None, type)])

    def variant_by_name(self, v):
        for i, (n, d, f) in enumerate(self.variants):
            if n == v:
                return i, d, f
        raise KeyError("%s::%s" % (self.name, v))

    def variant_by_discr(self, dval):
        for i, (n, d, f) in enumerate(self.variants):
            if d == dval:
                return i, n, f
        raise KeyError("%s discr %d" % (self.name, dval))


class StructDef:
    def __init__(self, name, generics, module, file):
        self.name, self.generics, self.module, self.file = name, generics, module, file
        self.fields = []     # (fname_or_None, type)


def module_of(path, root):
    rel = os.path.relpath(path, root)
    rel = rel[:-3]
    parts = rel.split(os.sep)
    if parts[-1] in ('mod', 'lib', 'main'):
        parts = parts[:-1]
    return '::'.join(parts)


class RustDefs:
    def __init__(self, src_root):
        self.enums = {}     # 'module::Name' -> EnumDef
        self.structs = {}
        self.aliases = {}   # 'module::Name' -> (generics, target type)
        self.uses = {}      # module -> ([glob-imported modules], {Name: 'module::Name'})
        for dp, dn, fn in os.walk(src_root):
            for f in fn:
                if f.endswith('.rs'):
                    self._scan(os.path.join(dp, f), src_root)
        self._builtin()

    def _builtin(self):
        def mk(name, gen, variants):
            e = EnumDef(name, gen, 'std', '<builtin>')
            e.variants = variants
            self.enums['std::' + name] = e
        mk('Option', ['T'], [('None', 0, []), ('Some', 1, [(None, 'T')])])
        mk('Result', ['T', 'E'], [('Ok', 0, [(None, 'T')]), ('Err', 1, [(None, 'E')])])
        mk('ControlFlow', ['B', 'C'], [('Continue', 0, [(None, 'C')]), ('Break', 1, [(None, 'B')])])
        mk('Ordering', [], [('Less', -1, []), ('Equal', 0, []), ('Greater', 1, [])])
        mk('Infallible', [], [])

    def _scan(self, path, root):
        src = strip_comments(open(path).read())
        mod = module_of(path, root)
        globs, named = self.uses.setdefault(mod, ([], {}))
        for m in re.finditer(r'(?m)^(?:pub(?:\([^)]*\))?\s+)?use\s+crate::([A-Za-z0-9_:]+?)(?:::(\*|\{[^}]*\}))?;', src):
            path, tail = m.group(1), m.group(2)
            if tail == '*':
                globs.append(path)
            elif tail:
                for n in tail[1:-1].split(','):
                    n = n.strip().split(' as ')[0].strip()
                    if n and n != 'self':
                        named[n.split('::')[-1]] = path + '::' + n
            else:
                named[path.split('::')[-1]] = path
        # module-level aliases only (associated types inside impl blocks are indented)
        for m in re.finditer(r'(?m)^(?:pub(?:\([^)]*\))?\s+)?type\s+([A-Za-z_][A-Za-z0-9_]*)\s*(<[^>=]*>)?\s*=\s*([^;]+);', src):
            gens = [g.strip() for g in m.group(2)[1:-1].split(',')] if m.group(2) else []
            self.aliases[mod + '::' + m.group(1)] = (gens, _clean_type(m.group(3)))
        for m in re.finditer(r'\b(enum|struct)\s+([A-Za-z_][A-Za-z0-9_]*)\s*(<[^>{(;]*>)?\s*(where[^{;]*)?([{(;])', src):
            kind, name, gen, _w, opener = m.groups()
            generics = []
            if gen:
                for g in split_top(gen[1:-1]):
                    g = g.split(':')[0].strip()
                    if g and not g.startswith("'"):
                        generics.append(g)
            if opener == ';':
                if kind == 'struct':
                    self.structs[mod + '::' + name] = StructDef(name, generics, mod, path)
                continue
            k = m.end() - 1
            j = match_paren(src, k)
            body = strip_attrs(src[k + 1:j])
            if kind == 'enum':
                e = EnumDef(name, generics, mod, path)
                nxt = 0
                for part in split_top(body):
                    part = part.strip()
                    if not part:
                        continue
                    mm = re.match(r'([A-Za-z_][A-Za-z0-9_]*)\s*(.*)$', part, re.S)
                    vname, rest = mm.group(1), mm.group(2).strip()
                    fields = []
                    d = None
                    if rest.startswith('('):
                        jj = match_paren(rest, 0)
                        for ft in split_top(rest[1:jj]):
                            if ft:
                                fields.append((None, _clean_type(ft)))
                        rest = rest[jj + 1:].strip()
                    elif rest.startswith('{'):
                        jj = match_paren(rest, 0)
                        for ft in split_top(rest[1:jj]):
                            ft = ft.strip()
                            if ft:
                                kk = ft.index(':')
                                fields.append((ft[:kk].strip().split()[-1], _clean_type(ft[kk + 1:])))
                        rest = rest[jj + 1:].strip()
                    if rest.startswith('='):
                        d = int(rest[1:].strip().replace('_', ''), 0)
                    if d is None:
                        d = nxt
                    nxt = d + 1
                    e.variants.append((vname, d, fields))
                self.enums[mod + '::' + name] = e
            else:
                s = StructDef(name, generics, mod, path)
                for ft in split_top(body):
                    ft = ft.strip()
                    if not ft:
                        continue
                    if opener == '(':
                        s.fields.append((None, _clean_type(re.sub(r'^pub(\([^)]*\))?\s+', '', ft))))
                    else:
                        kk = ft.index(':')
                        s.fields.append((ft[:kk].strip().split()[-1], _clean_type(ft[kk + 1:])))
                self.structs[mod + '::' + name] = s

    prefer_module = None

    def _find(self, table, path):
        """Resolve a (possibly abbreviated) type path by longest suffix match; an unqualified name is
        looked up in `prefer_module` first (the module whose definition mentions it)."""
        if self.prefer_module and '::' not in re.sub(r'<.*$', '', path).strip():
            bare = re.sub(r'<.*$', '', path).strip()
            k = self.prefer_module + '::' + bare
            if k in table:
                return table[k]
            # names the module imports (`use crate::alpha::common::*;`, `use crate::alpha::error::Error;`)
            globs, named = self.uses.get(self.prefer_module, ([], {}))
            if named.get(bare) in table:
                return table[named[bare]]
            hits = [g + '::' + bare for g in globs if (g + '::' + bare) in table]
            if len(hits) == 1:
                return table[hits[0]]
        path = re.sub(r'<.*$', '', path).strip()
        segs = path.split('::')
        cands = [k for k in table if k.split('::')[-1] == segs[-1]]
        if not cands:
            return None
        for take in range(len(segs), 0, -1):
            suf = '::'.join(segs[-take:])
            hit = [k for k in cands if k == suf or k.endswith('::' + suf)]
            if len(hit) == 1:
                return table[hit[0]]
            if len(hit) > 1 and take == len(segs):
                # ambiguous even with the full given path: prefer exact
                ex = [k for k in hit if k == suf]
                if ex:
                    return table[ex[0]]
        if len(segs) > 1:
            # a qualified path none of whose suffixes matched names a type defined elsewhere
            return None
        if len(cands) == 1:
            return table[cands[0]]
        # std prelude names
        for k in cands:
            if k.startswith('std::'):
                return table[k]
        raise KeyError("ambiguous type path %r: %s" % (path, cands))

    def expand_alias(self, ty, module):
        """Expand type aliases (`pub type Poisonable<T> = Result<T, Poison>`) in a field type written in
        `module`; aliases of the same module win, otherwise a unique alias of that name."""
        def repl(t, depth=0):
            if depth > 8:
                return t
            k = find_top(t, '<')
            base = (t if k < 0 else t[:k]).strip()
            args = split_top(t[k + 1:-1]) if k >= 0 and t.endswith('>') else []
            args = [repl(a, depth + 1) for a in args]
            name = base.split('::')[-1]
            cand = self.aliases.get(module + '::' + name)
            if cand is None and '::' not in base:
                hits = [v for kk, v in self.aliases.items() if kk.split('::')[-1] == name]
                # only expand module-agnostic aliases (same definition everywhere)
                if hits and all(h == hits[0] for h in hits):
                    cand = hits[0]
            if cand is not None and not (base.startswith('&') or base.startswith('(')):
                gens, target = cand
                env = dict(zip(gens, args))
                out = re.sub(r'\b([A-Z][A-Za-z0-9_]*)\b', lambda m: env.get(m.group(1), m.group(1)), target)
                return repl(out, depth + 1)
            if args:
                return '%s<%s>' % (base, ', '.join(args))
            return t
        return repl(ty.strip())

    def find_enum(self, path):
        return self._find(self.enums, path)

    def find_struct(self, path):
        return self._find(self.structs, path)


def _clean_type(t):
    t = re.sub(r'\s+', ' ', t.strip())
    t = re.sub(r'^pub(\([^)]*\))?\s+', '', t)
    return norm_type(t)


if __name__ == '__main__':
    import sys
    d = RustDefs(sys.argv[1])
    print(len(d.enums), 'enums', len(d.structs), 'structs')
    for k in sys.argv[2:]:
        e = d.find_enum(k) or d.find_struct(k)
        if isinstance(e, EnumDef):
            print(e.module, e.name, e.generics)
            for v in e.variants:
                print('  ', v)
        elif e:
            print(e.module, e.name, e.generics, e.fields)
