"""Hand-written models of the std functions the checked code calls.

Each model is part of the trusted base and its use is counted in the evidence.
A model returns (guard_after, value); panicking behaviour is expressed with
ex.oblige('panic', guard & cond, msg) and the guard is narrowed accordingly.
"""
import os
import re
import z3

from mirsym import (over_const_leaves, Unsupported, PathAbort, UNIT, Unit, Agg, EnumV, BoxV, BoxPtr, ValRef, PlaceRef,
                    SliceRef, MutSliceRef, Opaque, FnItem, Model, ClosureAdapter, DowncastView, bv, zand, zor, znot,
                    zite, ite_val, is_z3, zsimp, int_info, select, INT_W, strip_paths, split_top, generic_args)

TRUE = z3.BoolVal(True)
FALSE = z3.BoolVal(False)


def strip_refs(v):
    while isinstance(v, ValRef):
        v = v.val
    return v


def deref_any(ex, st, v):
    while isinstance(v, (ValRef, PlaceRef)):
        v = ex.deref(st, v)
    return v


def option(ex, cond, some_val, ty=None):
    return EnumV(ex.defs.find_enum('Option'), zite(cond, bv(1, 64), bv(0, 64)), {'None': (), 'Some': (some_val,)})


def option_is_some(o):
    return o.discr == bv(1, 64)


def structural_eq(ex, st, a, b, memo=None):
    a, b = deref_any(ex, st, a), deref_any(ex, st, b)
    if is_z3(a) and is_z3(b):
        return a == b
    if memo is None:
        memo = {}
    key = (id(a), id(b))
    r = memo.get(key)
    if r is None:
        r = (_structural_eq(ex, st, a, b, memo), a, b)
        memo[key] = r
    return r[0]


def _structural_eq(ex, st, a, b, memo):
    if isinstance(a, Unit) and isinstance(b, Unit):
        return TRUE
    if isinstance(a, Agg) and isinstance(b, Agg):
        if len(a.fields) != len(b.fields):
            return FALSE
        return zand(*[structural_eq(ex, st, x, y, memo) for x, y in zip(a.fields, b.fields)])
    if isinstance(a, EnumV) and isinstance(b, EnumV):
        cs = [a.discr == b.discr]
        for k in set(a.variants) & set(b.variants):
            fa, fb = a.variants[k], b.variants[k]
            if not fa:
                continue
            d = a.edef.variant_by_name(k)[1] if a.edef else None
            if d is None:
                raise Unsupported("eq on enum without definition")
            cs.append(z3.Implies(a.discr == bv(d, 64),
                                 zand(*[structural_eq(ex, st, x, y, memo) for x, y in zip(fa, fb)])))
        return zand(*cs)
    if isinstance(a, (BoxV, BoxPtr)) and isinstance(b, (BoxV, BoxPtr)):
        if a.content is None or b.content is None:
            raise PathAbort('depth', 'equality below the materialised type depth')
        return structural_eq(ex, st, a.content, b.content, memo)
    if isinstance(a, SliceRef) and isinstance(b, SliceRef):
        return slice_eq(a, b)
    if isinstance(a, Opaque) and isinstance(b, Opaque):
        if a is b:
            return TRUE
        return ex.fresh('opaque_eq', z3.BoolSort())
    raise Unsupported("structural eq of %s / %s" % (type(a).__name__, type(b).__name__))


def slice_eq(a, b):
    n = max(len(a.backing), len(b.backing))
    cs = [a.length == b.length]
    for i in range(n):
        cs.append(z3.Implies(z3.ULT(bv(i, 64), a.length),
                             select(a.backing, a.start + bv(i, 64)) == select(b.backing, b.start + bv(i, 64))))
    return zand(*cs)


PRIMS = set(INT_W) | {'bool', 'str', '()'}


def has_derived(ex, ty, trait):
    ex._build_impl_index()
    t = re.sub(r'<.*$', '', strip_paths(ty))
    hits = [e for e in ex.impl_index if e['trait'] == trait and re.sub(r'<.*$', '', e['self']) == t]
    if not hits:
        return None
    # derived impls have a span that is just the trait name
    return all(re.search(r'<impl at [^>]*>', e['name']) and _is_derive(e['name']) for e in hits)


def _is_derive(name):
    m = re.search(r'<impl at ([^:>]+):(\d+):(\d+): (\d+):(\d+)>', name)
    if not m:
        return False
    path, l1, c1, l2, c2 = m.group(1), int(m.group(2)), int(m.group(3)), int(m.group(4)), int(m.group(5))
    try:
        line = open(os.path.join(os.environ.get('VERIF_REPO', '/repo'), path)).read().split('\n')[l1 - 1]
    except OSError:
        return False
    return l1 == l2 and re.fullmatch(r'[A-Za-z_:]+', line[c1 - 1:c2 - 1]) is not None and 'derive' in line


def _strip_type_refs(t):
    t = t.strip()
    while t.startswith('&'):
        t = t[1:].strip()
        if t.startswith('mut '):
            t = t[4:]
    return t


def m_partial_eq(ex, m, argv, guard, st, callee):
    ty = _strip_type_refs(m.group(1))
    base = re.sub(r'<.*$', '', strip_paths(ty))
    ok = (base in PRIMS or re.fullmatch(r'[A-Z]', base) or base in ('Option', 'Box', 'Result', 'Vec', 'String')
          or ty.startswith('(') or ty.startswith('['))
    if not ok:
        d = has_derived(ex, ty, 'PartialEq')
        if d is None:
            raise Unsupported("PartialEq for %s: no impl found" % ty)
        if not d:
            target = ex.resolve_callee('<%s as PartialEq>::%s' % (ty, m.group(2)))
            if target is None:
                raise Unsupported("manual PartialEq for %s not resolvable" % ty)
            return ex.call_function(target, argv, guard, st)
    r = structural_eq(ex, st, argv[0], argv[1])
    return guard, (r if m.group(2) == 'eq' else znot(r))


def m_identity(ex, m, argv, guard, st, callee):
    return guard, argv[0]


def m_clone(ex, m, argv, guard, st, callee):
    ty = _strip_type_refs(m.group(1))
    base = re.sub(r'<.*$', '', strip_paths(ty))
    if not (base in PRIMS or re.fullmatch(r'[A-Z]', base) or base in ('Option', 'Box', 'String', 'Vec', 'Result', 'EnumSet')):
        d = has_derived(ex, ty, 'Clone')
        if d is False:
            raise Unsupported("manual Clone for %s" % ty)
    v = argv[0]
    if isinstance(v, (ValRef, PlaceRef)):
        v = ex.deref(st, v)
    return guard, v


def m_box_as_ref(ex, m, argv, guard, st, callee):
    b = deref_any(ex, st, argv[0])
    if not isinstance(b, BoxV):
        raise Unsupported("Box::as_ref on %s" % type(b).__name__)
    if b.content is None:
        raise PathAbort('depth', 'Box::as_ref below the materialised type depth')
    return guard, ValRef(b.content)


def m_box_new(ex, m, argv, guard, st, callee):
    return guard, BoxV(argv[0])


def call_closure(ex, f, args, guard, st):
    """f: closure value (Agg of captures) or FnItem; args: list."""
    if isinstance(f, FnItem):
        # function item / path used as a value
        g2, v = ex.do_call(None_fn, f.text, args, guard, st)
        return g2, v
    if isinstance(f, (ValRef, PlaceRef)):
        inner = ex.deref(st, f)
        if isinstance(inner, Agg) and inner.tag and inner.tag.startswith('{closure@'):
            tag = inner.tag
            target = find_closure(ex, tag)
            return ex.call_function(target.fn, [f] + list(args), guard, st)
    if isinstance(f, Agg) and f.tag and f.tag.startswith('{closure@'):
        target = find_closure(ex, f.tag)
        first = target.fn.params[0][1]
        a0 = f
        if first.startswith('&'):
            a0 = ValRef(f)
        return ex.call_function(target.fn, [a0] + list(args), guard, st)
    raise Unsupported("call of %r" % (f,))


class _NoFn:
    name = '<closure call>'


None_fn = _NoFn()


def find_closure(ex, tag):
    cache = getattr(ex, '_closure_cache', None)
    if cache is None:
        cache = ex._closure_cache = {}
    if tag not in cache:
        hit = None
        for name in ex.dump.fn_index:
            if '{closure#' in name:
                f = ex.dump.get(name)
                if f.params and tag in f.params[0][1]:
                    hit = ClosureAdapter(f)
                    break
        if hit is None:
            raise Unsupported("closure body for %s not in dump" % tag)
        cache[tag] = hit
    return cache[tag]


def m_closure_call(ex, m, argv, guard, st, callee):
    tag = m.group(1)
    target = find_closure(ex, tag)
    args = argv[1]
    spread = [] if isinstance(args, Unit) else list(args.fields)
    return ex.call_function(target.fn, [argv[0]] + spread, guard, st)


def m_option_map_or(ex, m, argv, guard, st, callee):
    o, default, f = argv
    if not isinstance(o, EnumV):
        raise Unsupported("map_or on %s" % type(o).__name__)
    some = option_is_some(o)
    gs = zand(guard, some)
    if ex.feasible(gs):
        st2 = st.copy()
        g2, v = call_closure(ex, f, [o.variants['Some'][0]], gs, st2)
        # closures used with map_or here are pure; state changes are not merged back
        return zor(zand(guard, znot(some)), g2), ite_val(some, v, default)
    return guard, default


def m_option_map(ex, m, argv, guard, st, callee):
    o, f = argv
    some = option_is_some(o)
    none = EnumV(ex.defs.find_enum('Option'), bv(0, 64), {'None': ()})
    if 'Some' not in o.variants or z3.is_false(zsimp(some)):
        return guard, none
    before = st.copy()
    g2, v = call_closure(ex, f, [o.variants['Some'][0]], zand(guard, some), st)
    if not z3.is_true(zsimp(some)):
        from mirsym import merge_states
        _g, merged = merge_states([(some, st.copy()), (znot(some), before)])
        st.mem, st.dom, st.ckey = merged.mem, merged.dom, merged.ckey
    return zor(zand(guard, znot(some)), g2), option(ex, some, v)


def m_slice_get(ex, m, argv, guard, st, callee):
    s = as_slice(ex, st, argv[0])
    which = m.group(1)
    if which == 'get':
        i = argv[1]
        if not is_z3(i):
            raise Unsupported("slice::get with a range")
    elif which == 'first':
        i = bv(0, 64)
    else:
        i = s.length - bv(1, 64)
    ok = z3.ULT(i, s.length) if which != 'last' else s.length != bv(0, 64)
    if not s.backing:
        return guard, EnumV(ex.defs.find_enum('Option'), bv(0, 64), {'None': ()})
    return guard, option(ex, ok, ValRef(select(s.backing, s.start + i)))


def m_char_to_digit(ex, m, argv, guard, st, callee):
    c, radix = argv
    r = zsimp(radix)
    if not z3.is_bv_value(r):
        raise Unsupported("char::to_digit with a symbolic radix")
    r = r.as_long()
    d = zite(zand(z3.UGE(c, bv(0x30, 32)), z3.ULE(c, bv(0x39, 32))), c - bv(0x30, 32),
             zite(zand(z3.UGE(c | bv(0x20, 32), bv(0x61, 32)), z3.ULE(c | bv(0x20, 32), bv(0x7a, 32))),
                  (c | bv(0x20, 32)) - bv(0x61 - 10, 32), bv(99, 32)))
    return guard, option(ex, z3.ULT(d, bv(r, 32)), d)


def m_option_transpose(ex, m, argv, guard, st, callee):
    """Option<Result<T, E>> -> Result<Option<T>, E>"""
    o = argv[0]
    opt, res = ex.defs.find_enum('Option'), ex.defs.find_enum('Result')
    none = EnumV(opt, bv(0, 64), {'None': ()})
    if 'Some' not in o.variants:
        return guard, EnumV(res, bv(0, 64), {'Ok': (none,)})
    r = o.variants['Some'][0]
    is_some = option_is_some(o)
    is_err = zand(is_some, r.discr == bv(1, 64))
    vs = {}
    ok_inner = EnumV(opt, zite(is_some, bv(1, 64), bv(0, 64)),
                     {'None': (), 'Some': (r.variants['Ok'][0],)} if 'Ok' in r.variants else {'None': ()})
    vs['Ok'] = (ok_inner,)
    if 'Err' in r.variants:
        vs['Err'] = (r.variants['Err'][0],)
    return guard, EnumV(res, zite(is_err, bv(1, 64), bv(0, 64)), vs)


def m_option_take(ex, m, argv, guard, st, callee):
    ref = argv[0]
    if not isinstance(ref, PlaceRef):
        raise Unsupported("Option::take through %s" % type(ref).__name__)
    cur = ex.read_ref(st, ref)
    ex.write_cell(st, ref.cell, ref.path, EnumV(ex.defs.find_enum('Option'), bv(0, 64), {'None': ()}))
    return guard, cur


def m_split_first(ex, m, argv, guard, st, callee):
    s = as_slice(ex, st, argv[0])
    none = EnumV(ex.defs.find_enum('Option'), bv(0, 64), {'None': ()})
    if not s.backing:
        return guard, none
    nonempty = s.length != bv(0, 64)
    first = ValRef(select(s.backing, s.start))
    rest = SliceRef(s.backing, s.start + bv(1, 64), s.length - bv(1, 64))
    return guard, option(ex, nonempty, Agg([first, rest]))


def m_ref_vec_into_iter(ex, m, argv, guard, st, callee):
    g2, sl = m_vec_deref(ex, m, argv, guard, st, callee)
    return g2, Model('slice_iter', slice=sl, pos=bv(0, 64), by_ref=True, enum=False)


def m_option_is(ex, m, argv, guard, st, callee):
    o = deref_any(ex, st, argv[0])
    r = option_is_some(o)
    return guard, (r if m.group(1) == 'is_some' else znot(r))


def m_option_unwrap(ex, m, argv, guard, st, callee):
    o = argv[0]
    ok = option_is_some(o)
    ex.oblige('panic', zand(guard, znot(ok)), 'Option::%s on None' % m.group(1))
    g2 = zand(guard, ok)
    if 'Some' not in o.variants:
        return FALSE, None
    return g2, o.variants['Some'][0]


def m_result_unwrap(ex, m, argv, guard, st, callee):
    r = argv[0]
    ok = r.discr == bv(0, 64)
    ex.oblige('panic', zand(guard, znot(ok)), 'Result::%s on Err' % m.group(1))
    if 'Ok' not in r.variants:
        return FALSE, None
    return zand(guard, ok), r.variants['Ok'][0]


def m_option_unwrap_or(ex, m, argv, guard, st, callee):
    o, d = argv
    if 'Some' not in o.variants:
        return guard, d
    return guard, ite_val(option_is_some(o), o.variants['Some'][0], d)


def m_panic(ex, m, argv, guard, st, callee):
    ex.oblige('panic', guard, 'explicit panic: %s' % callee[:60])
    return FALSE, None


def m_from_int(ex, m, argv, guard, st, callee):
    dst, src = m.group(1), m.group(2)
    v = argv[0]
    if src == 'bool':
        return guard, zite(v, bv(1, INT_W[dst]), bv(0, INT_W[dst]))
    sw, ss = int_info(src)
    dw, _ = int_info(dst)
    if dw == sw:
        return guard, v
    if dw < sw:
        raise Unsupported("narrowing From")
    return guard, (z3.SignExt(dw - sw, v) if ss else z3.ZeroExt(dw - sw, v))


def m_into(ex, m, argv, guard, st, callee):
    src, dst = m.group(1), m.group(2)
    target = ex.resolve_callee('<%s as From<%s>>::from' % (dst, src))
    if target is None:
        if int_info(src) and int_info(dst):
            mm = re.match(r'(.*)', '')
            return m_from_int(ex, re.match(r'(\w+) (\w+)', '%s %s' % (dst, src)), argv, guard, st, callee)
        raise Unsupported("Into %s -> %s" % (src, dst))
    return ex.call_function(target, argv, guard, st)


def m_checked(ex, m, argv, guard, st, callee):
    ty, op = m.group(1), m.group(2)
    w, signed = int_info(ty)
    a, b = argv
    full = ex.binop({'add': 'AddWithOverflow', 'sub': 'SubWithOverflow', 'mul': 'MulWithOverflow'}[op], a, b, ty)
    r, ovf = full.fields
    return guard, option(ex, znot(ovf), r)


def m_overflowing(ex, m, argv, guard, st, callee):
    ty, op = m.group(1), m.group(2)
    a, b = argv
    full = ex.binop({'add': 'AddWithOverflow', 'sub': 'SubWithOverflow', 'mul': 'MulWithOverflow'}[op], a, b, ty)
    return guard, full


def m_saturating(ex, m, argv, guard, st, callee):
    ty, op = m.group(1), m.group(2)
    w, signed = int_info(ty)
    a, b = argv
    r, ovf = ex.binop({'add': 'AddWithOverflow', 'sub': 'SubWithOverflow', 'mul': 'MulWithOverflow'}[op], a, b, ty).fields
    if not signed:
        lim = bv(0, w) if op == 'sub' else bv((1 << w) - 1, w)
        return guard, zite(ovf, lim, r)
    mx, mn = bv((1 << (w - 1)) - 1, w), bv(-(1 << (w - 1)), w)
    if op == 'add':
        lim = zite(b < 0, mn, mx)
    elif op == 'sub':
        lim = zite(b < 0, mx, mn)
    else:
        lim = zite((a < 0) != (b < 0), mn, mx)
    return guard, zite(ovf, lim, r)


def m_int_minmax_method(ex, m, argv, guard, st, callee):
    ty, which = m.group(1), m.group(2)
    return m_minmax(ex, re.match(r'(.*) (max|min)', '%s %s' % (ty, which)), argv, guard, st, callee)


def m_bits(ex, m, argv, guard, st, callee):
    ty, which = m.group(1), m.group(2)
    w, signed = int_info(ty)
    a = argv[0]
    if which == 'count_ones':
        r = bv(0, 32)
        for i in range(w):
            r = r + z3.ZeroExt(31, z3.Extract(i, i, a))
        return guard, r
    if which in ('leading_zeros', 'trailing_zeros'):
        r = bv(w, 32)
        rng = range(w) if which == 'leading_zeros' else range(w - 1, -1, -1)
        for i in rng:
            n = (w - 1 - i) if which == 'leading_zeros' else i
            r = zite(z3.Extract(i, i, a) == bv(1, 1), bv(n, 32), r)
        return guard, r
    if which == 'is_power_of_two':
        return guard, zand(a != bv(0, w), (a & (a - bv(1, w))) == bv(0, w))
    if which == 'abs':
        ex.oblige('panic', zand(guard, a == bv(-(1 << (w - 1)), w)), 'abs overflow')
        return guard, zite(a < 0, -a, a)
    if which == 'unsigned_abs':
        return guard, zite(a < 0, -a, a)
    raise Unsupported(which)


def m_ascii_pred(ex, m, argv, guard, st, callee):
    ty, which = m.group(1), m.group(2)
    v = deref_any(ex, st, argv[0])
    w = v.size()
    c = lambda x: bv(x, w)
    rng = lambda lo, hi: zand(z3.UGE(v, c(lo)), z3.ULE(v, c(hi)))
    lower, upper, digit = rng(0x61, 0x7a), rng(0x41, 0x5a), rng(0x30, 0x39)
    table = {
        'is_ascii': z3.ULE(v, c(127)),
        'is_ascii_graphic': rng(0x21, 0x7e),
        'is_ascii_digit': digit,
        'is_ascii_lowercase': lower,
        'is_ascii_uppercase': upper,
        'is_ascii_alphabetic': zor(lower, upper),
        'is_ascii_alphanumeric': zor(lower, upper, digit),
        'is_ascii_hexdigit': zor(digit, rng(0x41, 0x46), rng(0x61, 0x66)),
        'is_ascii_punctuation': zor(rng(0x21, 0x2f), rng(0x3a, 0x40), rng(0x5b, 0x60), rng(0x7b, 0x7e)),
        'is_ascii_whitespace': zor(v == c(0x20), v == c(0x09), v == c(0x0a), v == c(0x0c), v == c(0x0d)),
        'is_ascii_control': zor(z3.ULE(v, c(0x1f)), v == c(0x7f)),
    }
    if which in table:
        return guard, table[which]
    if which == 'to_ascii_lowercase':
        return guard, zite(upper, v | c(0x20), v)
    if which == 'to_ascii_uppercase':
        return guard, zite(lower, v & c(0xdf if w == 8 else 0xffffffdf), v)
    if which == 'eq_ignore_ascii_case':
        o = deref_any(ex, st, argv[1])
        lo = lambda x: zite(zand(z3.UGE(x, c(0x41)), z3.ULE(x, c(0x5a))), x | c(0x20), x)
        return guard, lo(v) == lo(o)
    raise Unsupported(which)


def m_saturating_sub(ex, m, argv, guard, st, callee):
    ty = m.group(1)
    w, signed = int_info(ty)
    if signed:
        raise Unsupported("signed saturating_sub")
    a, b = argv
    return guard, zite(z3.ULT(a, b), bv(0, w), a - b)


def m_wrapping(ex, m, argv, guard, st, callee):
    ty, op = m.group(1), m.group(2)
    a, b = argv
    return guard, ex.binop({'add': 'Add', 'sub': 'Sub', 'mul': 'Mul'}[op], a, b, ty)


def m_minmax(ex, m, argv, guard, st, callee):
    ty, which = m.group(1), m.group(2)
    ii = int_info(strip_paths(ty))
    if ii is None:
        raise Unsupported("cmp::%s on %s" % (which, ty))
    a, b = argv
    if not ii[1]:
        # one side a constant, the other an if-then-else tree of constants: a tree of constants again
        for x, y in ((a, b), (b, a)):
            if is_z3(y) and z3.is_bv_value(zsimp(y)):
                yc = zsimp(y).as_long()
                pick = (lambda c: bv(max(c.as_long(), yc), c.size())) if which == 'max' else (lambda c: bv(min(c.as_long(), yc), c.size()))
                d = over_const_leaves(x, pick)
                if d is not None:
                    return guard, zsimp(d)
    lt = (a < b) if ii[1] else z3.ULT(a, b)
    if which == 'max':
        return guard, zite(lt, b, a)
    return guard, zite(lt, a, b)


def m_is_ascii(ex, m, argv, guard, st, callee):
    v = deref_any(ex, st, argv[0])
    which = m.group(1)
    if which == 'is_ascii':
        return guard, z3.ULE(v, bv(127, 8))
    if which == 'is_ascii_graphic':
        return guard, zand(z3.UGE(v, bv(0x21, 8)), z3.ULE(v, bv(0x7e, 8)))
    if which == 'is_ascii_digit':
        return guard, zand(z3.UGE(v, bv(0x30, 8)), z3.ULE(v, bv(0x39, 8)))
    raise Unsupported(which)


# ---- slices, ranges ------------------------------------------------------------------------
def as_slice(ex, st, v):
    v = deref_any(ex, st, v) if isinstance(v, (PlaceRef,)) else v
    if isinstance(v, SliceRef):
        return v
    if isinstance(v, ValRef):
        return as_slice(ex, st, v.val)
    if isinstance(v, Agg):
        return SliceRef(v.fields, bv(0, 64), bv(len(v.fields), 64))
    raise Unsupported("not a slice: %s" % type(v).__name__)


def m_slice_index_range(ex, m, argv, guard, st, callee):
    s = as_slice(ex, st, argv[0])
    r = argv[1]
    lo, hi = r.fields[0], r.fields[1]
    bad = zor(z3.UGT(lo, hi), z3.UGT(hi, s.length))
    lo_s, hi_s = zsimp(lo), zsimp(hi)
    if ex.var_bounds and z3.is_bv_value(lo_s) and z3.is_bv_value(hi_s) and lo_s.as_long() <= hi_s.as_long() \
            and ex.decide_cmp('Le', hi_s, s.length) is True:
        bad = FALSE
    ex.oblige('panic', zand(guard, bad), 'slice index range out of bounds')
    return zand(guard, znot(bad)), SliceRef(s.backing, s.start + lo, hi - lo)


def m_slice_len(ex, m, argv, guard, st, callee):
    s = as_slice(ex, st, argv[0])
    if m.group(1) == 'len':
        return guard, s.length
    return guard, s.length == bv(0, 64)


def m_range_len(ex, m, argv, guard, st, callee):
    r = deref_any(ex, st, argv[0])
    lo, hi = r.fields[0], r.fields[1]
    return guard, zite(z3.ULT(lo, hi), hi - lo, bv(0, 64))


def m_range_incl_new(ex, m, argv, guard, st, callee):
    return guard, Agg([argv[0], argv[1]], 'RangeInclusive')


def m_range_incl_contains(ex, m, argv, guard, st, callee):
    r = deref_any(ex, st, argv[0])
    x = deref_any(ex, st, argv[1])
    w = x.size()
    # only unsigned instantiations occur (checked by the regex)
    return guard, zand(z3.ULE(r.fields[0], x), z3.ULE(x, r.fields[1]))


def m_then_some(ex, m, argv, guard, st, callee):
    return guard, option(ex, argv[0], argv[1])


def m_option_and_then(ex, m, argv, guard, st, callee):
    o, f = argv
    some = option_is_some(o)
    gs = zand(guard, some)
    none = EnumV(ex.defs.find_enum('Option'), bv(0, 64), {'None': ()})
    if not ex.feasible(gs):
        return guard, none
    st2 = st.copy()
    g2, v = call_closure(ex, f, [o.variants['Some'][0]], gs, st2)
    return zor(zand(guard, znot(some)), g2), ite_val(some, v, none)


def m_char_from_u32(ex, m, argv, guard, st, callee):
    x = argv[0]
    ok = zand(z3.ULE(x, bv(0x10FFFF, 32)), znot(zand(z3.UGE(x, bv(0xD800, 32)), z3.ULE(x, bv(0xDFFF, 32)))))
    return guard, option(ex, ok, x)


def m_encode_utf8(ex, m, argv, guard, st, callee):
    c = argv[0]
    n = zite(z3.ULT(c, bv(0x80, 32)), bv(1, 64),
             zite(z3.ULT(c, bv(0x800, 32)), bv(2, 64), zite(z3.ULT(c, bv(0x10000, 32)), bv(3, 64), bv(4, 64))))
    # contents are not modelled precisely: four unconstrained bytes (callers only forward them)
    bs = [ex.fresh('utf8', z3.BitVecSort(8)) for _ in range(4)]
    return guard, SliceRef(bs, bv(0, 64), n)


# ---- byte iterators -------------------------------------------------------------------------
def m_slice_iter(ex, m, argv, guard, st, callee):
    s = as_slice(ex, st, argv[0])
    return guard, Model('slice_iter', slice=s, pos=bv(0, 64), by_ref=True, enum=False)


def m_iter_adapt(ex, m, argv, guard, st, callee):
    it = argv[0]
    if not isinstance(it, Model) or it.kind != 'slice_iter':
        raise Unsupported("iterator adaptor on %r" % (it,))
    which = m.group(1)
    if not z3.is_bv_value(zsimp(it.f['pos'])) or zsimp(it.f['pos']).as_long() != 0:
        raise Unsupported("adaptor applied to a started iterator")
    f = dict(it.f)
    if which == 'copied':
        f['by_ref'] = False
    elif which == 'enumerate':
        f['enum'] = True
    elif which == 'peekable':
        pass
    return guard, Model('slice_iter', **f)


def _iter_item(it, pos):
    s = it.f['slice']
    e = select(s.backing, s.start + pos)
    if it.f['by_ref']:
        e = ValRef(e)
    if it.f['enum']:
        e = Agg([pos, e])
    return e


def _iter_get(ex, st, ref):
    if not isinstance(ref, PlaceRef):
        raise Unsupported("iterator passed by %s" % type(ref).__name__)
    it = ex.read_ref(st, ref)
    if not isinstance(it, Model) or it.kind != 'slice_iter':
        raise Unsupported("not a modelled iterator: %r" % (it,))
    return it


def _iter_store(ex, st, ref, it, pos):
    f = dict(it.f)
    f['pos'] = pos
    ex.write_cell(st, ref.cell, ref.path, Model('slice_iter', **f))
    p = zsimp(pos)
    if z3.is_bv_value(p) and not ref.path:
        st.ckey[ref.cell] = p.as_long()
    else:
        st.ckey.pop(ref.cell, None)


def _advance(it, pos):
    """pos + 1, saturating at the end of the backing store.  A slice iterator is fused, so advancing an
    exhausted iterator is unobservable; saturating keeps the position concrete."""
    n = len(it.f['slice'].backing)
    p = zsimp(pos)
    if z3.is_bv_value(p):
        return bv(min(p.as_long() + 1, n), 64)
    return zite(z3.ULT(pos, bv(n, 64)), pos + bv(1, 64), pos)


def _has(it, pos):
    s = it.f['slice']
    p = zsimp(pos)
    if z3.is_bv_value(p) and p.as_long() >= len(s.backing):
        return FALSE
    ex = _EX[0]
    if ex is not None and ex.var_bounds and z3.is_bv_value(zsimp(s.start)) and zsimp(s.start).as_long() == 0:
        d = ex.decide_cmp('Lt', p, s.length)
        if d is not None:
            return z3.BoolVal(d)
    return zsimp(z3.ULT(pos, s.length))


def _item_or_none(it, pos):
    p = zsimp(pos)
    if z3.is_bv_value(p) and p.as_long() >= len(it.f['slice'].backing):
        return None
    return _iter_item(it, pos)


def m_iter_next(ex, m, argv, guard, st, callee):
    it = _iter_get(ex, st, argv[0])
    pos = it.f['pos']
    has = _has(it, pos)
    item = _item_or_none(it, pos)
    _iter_store(ex, st, argv[0], it, _advance(it, pos))
    if item is None:
        return guard, EnumV(ex.defs.find_enum('Option'), bv(0, 64), {'None': ()})
    return guard, option(ex, has, item)


def m_iter_zip(ex, m, argv, guard, st, callee):
    """slice::Iter::zip(slice::Iter): both iterators fresh; one shared position."""
    a, b = argv[0], argv[1]
    for it in (a, b):
        if not (isinstance(it, Model) and it.kind == 'slice_iter' and z3.is_bv_value(zsimp(it.f['pos'])) and zsimp(it.f['pos']).as_long() == 0):
            raise Unsupported("zip of %r" % (it,))
    return guard, Model('zip_iter', a=a, b=b, pos=bv(0, 64))


def m_zip_next(ex, m, argv, guard, st, callee):
    ref = argv[0]
    if not isinstance(ref, PlaceRef):
        raise Unsupported("Zip::next through %s" % type(ref).__name__)
    z = ex.read_ref(st, ref)
    if not (isinstance(z, Model) and z.kind == 'zip_iter'):
        raise Unsupported("not a modelled Zip: %r" % (z,))
    a, b, pos = z.f['a'], z.f['b'], z.f['pos']
    has = zand(_has(a, pos), _has(b, pos))
    ia, ib = _item_or_none(a, pos), _item_or_none(b, pos)
    na, nb = _advance(a, pos), _advance(b, pos)
    # a Zip stops at the shorter side: the shared position saturates at the smaller backing store
    npos = na if (z3.is_bv_value(zsimp(na)) and z3.is_bv_value(zsimp(nb)) and zsimp(na).as_long() <= zsimp(nb).as_long()) else nb
    ex.write_cell(st, ref.cell, ref.path, Model('zip_iter', a=a, b=b, pos=npos))
    p = zsimp(npos)
    if z3.is_bv_value(p) and not ref.path:
        st.ckey[ref.cell] = p.as_long()
    else:
        st.ckey.pop(ref.cell, None)
    if ia is None or ib is None:
        return guard, EnumV(ex.defs.find_enum('Option'), bv(0, 64), {'None': ()})
    return guard, option(ex, zsimp(has), Agg([ia, ib]))


def m_iter_peek(ex, m, argv, guard, st, callee):
    it = _iter_get(ex, st, argv[0])
    pos = it.f['pos']
    has = _has(it, pos)
    item = _item_or_none(it, pos)
    if item is None:
        return guard, EnumV(ex.defs.find_enum('Option'), bv(0, 64), {'None': ()})
    return guard, option(ex, has, ValRef(item))


def m_iter_next_if(ex, m, argv, guard, st, callee):
    it = _iter_get(ex, st, argv[0])
    pos = it.f['pos']
    has = _has(it, pos)
    item = _item_or_none(it, pos)
    none = EnumV(ex.defs.find_enum('Option'), bv(0, 64), {'None': ()})
    if item is None or z3.is_false(has):
        return guard, none
    gh = zand(guard, has)
    if not ex.feasible(gh):
        return guard, none
    st2 = st.copy()
    g2, b = call_closure(ex, argv[1], [ValRef(item)], gh, st2)
    take = zsimp(zand(has, b))
    g_after = zor(zand(guard, znot(has)), g2)
    # fork: the position stays concrete in both outcomes
    st_take = st.copy()
    _iter_store(ex, st_take, argv[0], it, _advance(it, pos))
    some = EnumV(ex.defs.find_enum('Option'), bv(1, 64), {'Some': (item,)})
    out = []
    if not z3.is_false(take):
        out.append((zand(g_after, take), some, st_take))
    if not z3.is_true(take):
        out.append((zand(g_after, znot(take)), none, st))
    return out


def m_iter_any(ex, m, argv, guard, st, callee):
    """<slice::Iter<T> as Iterator>::any(closure): disjunction over the elements in range (the closures
    admitted here are pure, so short-circuiting is unobservable)."""
    it = _iter_get(ex, st, argv[0])
    s = it.f['slice']
    target = find_closure(ex, re.search(r'\{closure@[^}]*\}', callee).group(0))
    res = []
    cl = argv[1]
    g_all = guard
    for j, elem in enumerate(s.backing):
        active = zsimp(zand(z3.ULE(s.start + it.f['pos'], bv(j, 64)), z3.ULT(bv(j, 64), s.start + s.length)))
        if z3.is_false(active):
            continue
        item = ValRef(elem) if it.f['by_ref'] else elem
        first = target.fn.params[0][1]
        a0 = cl
        if first.startswith('&') and not isinstance(cl, (ValRef, PlaceRef)):
            a0 = ValRef(cl)
        g2, b = ex.call_function(target.fn, [a0, item], zand(guard, active), st.copy())
        res.append(zand(active, b))
    return guard, zor(*res)


def m_try_branch(ex, m, argv, guard, st, callee):
    r = argv[0]
    cf = ex.defs.find_enum('ControlFlow')
    kind = m.group(1)
    if kind == 'Result':
        vs = {}
        if 'Ok' in r.variants:
            vs['Continue'] = (r.variants['Ok'][0],)
        if 'Err' in r.variants:
            vs['Break'] = (EnumV(ex.defs.find_enum('Result'), bv(1, 64), {'Err': (r.variants['Err'][0],)}),)
        return guard, EnumV(cf, r.discr, vs)
    if kind == 'Option':
        vs = {}
        if 'Some' in r.variants:
            vs['Continue'] = (r.variants['Some'][0],)
        vs['Break'] = (EnumV(ex.defs.find_enum('Option'), bv(0, 64), {'None': ()}),)
        return guard, EnumV(cf, zite(option_is_some(r), bv(0, 64), bv(1, 64)), vs)
    raise Unsupported("Try::branch for %s" % kind)


def m_from_residual(ex, m, argv, guard, st, callee):
    r = argv[0]
    kind = m.group(1)
    if kind == 'Result':
        if 'Err' not in r.variants:
            raise Unsupported("from_residual without Err")
        e = r.variants['Err'][0]
        # error conversion through From is identity for the cases admitted here
        src = re.search(r'FromResidual<Result<(?:std::convert::)?Infallible, (.*?)>>>::from_residual$', callee)
        dst = generic_args(m.group(2))
        if src and dst and strip_paths(src.group(1)) != strip_paths(dst[-1]):
            # `From::from` on the error is total: the result is an Err whose payload is not modelled
            return guard, EnumV(ex.defs.find_enum('Result'), bv(1, 64), {'Err': (Opaque('converted error'),)})
        return guard, EnumV(ex.defs.find_enum('Result'), bv(1, 64), {'Err': (e,)})
    if kind == 'Option':
        return guard, EnumV(ex.defs.find_enum('Option'), bv(0, 64), {'None': ()})
    raise Unsupported("from_residual for %s" % kind)


def m_into_iter_slice(ex, m, argv, guard, st, callee):
    s = as_slice(ex, st, argv[0])
    return guard, Model('slice_iter', slice=s, pos=bv(0, 64), by_ref=True, enum=False)


def m_str_as_bytes(ex, m, argv, guard, st, callee):
    return guard, as_slice(ex, st, argv[0])


# ---- Vec model (fixed backing store, symbolic length) ------------------------------------------
def new_vec(slots, length, cap):
    return Model('vec', items=Agg([None] * slots, 'vecitems'), len=length, cap=cap)


def _vec_get(ex, st, ref):
    v = deref_any(ex, st, ref)
    if not isinstance(v, Model) or v.kind != 'vec':
        raise Unsupported("not a modelled Vec: %r" % (v,))
    return v


# ---- heap Vec with explicit storage cell and initialisation flags (for code that uses spare capacity + set_len)
def _concretize(ex, t, what):
    """A term that the harness preconditions force to a single value is replaced by that value."""
    t2 = zsimp(t)
    if z3.is_bv_value(t2):
        return t2.as_long()
    ex.solver.push()
    r = ex.solver.check()
    if r != z3.sat:
        ex.solver.pop()
        raise Unsupported("cannot concretize %s" % what)
    c = ex.solver.model().eval(t2, model_completion=True)
    ex.solver.add(t2 != c)
    r = ex.solver.check()
    ex.solver.pop()
    if r != z3.unsat:
        raise Unsupported("%s is not determined by the preconditions" % what)
    return c.as_long()


def _upper_bound(ex, t, what):
    """Smallest bound of the form 2^k (k <= 12) that the preconditions force on t."""
    t2 = zsimp(t)
    if z3.is_bv_value(t2):
        return t2.as_long()
    b = 1
    while b <= 4096:
        ex.solver.push()
        ex.solver.add(z3.UGT(t2, bv(b, t2.size())))
        r = ex.solver.check()
        ex.solver.pop()
        if r == z3.unsat:
            return b
        b *= 2
    raise Unsupported("%s is not bounded by 4096 under the preconditions" % what)


def m_hvec_with_capacity(ex, m, argv, guard, st, callee):
    slots = _upper_bound(ex, argv[0], 'Vec capacity')
    if slots > 4096:
        raise Unsupported("Vec::with_capacity(%d) exceeds the model" % slots)
    ex.fresh_n += 1
    cell = (0, 'heap%d' % ex.fresh_n)
    slots += 4      # room for Vec::push to grow beyond the requested capacity
    # states with different allocation histories are never merged (their Vecs live in different cells)
    st.ckey[(0, 'allocs')] = hash((st.ckey.get((0, 'allocs'), 0), ex.fresh_n + 1)) & 0xFFFFFFFFFFFF
    st.mem[cell] = Agg([None] * slots, 'heap')
    st.mem[(0, cell[1] + '#init')] = Agg([FALSE] * slots, 'initflags')
    return guard, Model('hvec', store=cell, len=bv(0, 64), cap=zsimp(argv[0]))


def _hvec(ex, st, ref):
    v = deref_any(ex, st, ref)
    if isinstance(v, Model) and v.kind == 'hvec':
        return v
    return None


def _set_init(ex, st, cell, idx, value=TRUE):
    fcell = (0, cell[1] + '#init')
    flags = st.mem.get(fcell)
    if flags is None:
        return
    i = zsimp(idx)
    fs = list(flags.fields)
    if z3.is_bv_value(i):
        if i.as_long() < len(fs):
            fs[i.as_long()] = value
    else:
        fs = [zite(i == bv(k, 64), value, f) for k, f in enumerate(fs)]
    st.mem[fcell] = Agg(fs, 'initflags')


def m_hvec_spare(ex, m, argv, guard, st, callee):
    v = _hvec(ex, st, argv[0])
    if v is None:
        raise Unsupported("spare_capacity_mut on a non-heap Vec model")
    ln = zsimp(v.f['len'])
    if not (z3.is_bv_value(ln) and ln.as_long() == 0):
        raise Unsupported("spare_capacity_mut on a non-empty Vec")
    return guard, MutSliceRef(v.f['store'], (), v.f['cap'])


def m_hvec_set_len(ex, m, argv, guard, st, callee):
    ref = argv[0]
    v = ex.read_ref(st, ref)
    if not (isinstance(v, Model) and v.kind == 'hvec'):
        raise Unsupported("set_len on a non-heap Vec model")
    n = argv[1]
    ex.oblige('panic', zand(guard, z3.UGT(n, v.f['cap'])), 'Vec::set_len beyond the capacity')
    flags = st.mem[(0, v.f['store'][1] + '#init')].fields
    uninit = zor(*[zand(z3.ULT(bv(k, 64), n), znot(f)) for k, f in enumerate(flags)])
    ex.oblige('uninit', zand(guard, uninit), 'Vec::set_len exposes a slot that was never written')
    ex.write_cell(st, ref.cell, ref.path, Model('hvec', store=v.f['store'], len=n, cap=v.f['cap']))
    return guard, UNIT


def m_hvec_shrink(ex, m, argv, guard, st, callee):
    return guard, UNIT


def m_vec_len(ex, m, argv, guard, st, callee):
    hv = _hvec(ex, st, argv[0])
    if hv is not None:
        return guard, hv.f[{'len': 'len', 'capacity': 'cap'}[m.group(1)]]
    return _m_vec_len(ex, m, argv, guard, st, callee)


def m_hvec_push(ex, st, ref, v, val, guard):
    ln = v.f['len']
    cell = v.f['store']
    nslots = len(st.mem[cell].fields)
    full = zsimp(z3.UGE(ln, bv(nslots, 64)))
    ex.oblige('bound', zand(guard, full), 'heap Vec model has no slot left for a growing push')
    guard = zand(guard, znot(full))
    ex.write_cell(st, cell, (('idx', ln),), val)
    _set_init(ex, st, cell, ln)
    newcap = zsimp(zite(z3.UGE(ln, v.f['cap']), ln + bv(1, 64), v.f['cap']))     # push grows the Vec when full
    ex.write_cell(st, ref.cell, ref.path, Model('hvec', store=cell, len=zsimp(ln + bv(1, 64)), cap=newcap))
    return guard, UNIT


def _m_vec_len(ex, m, argv, guard, st, callee):
    v = _vec_get(ex, st, argv[0])
    return guard, v.f[{'len': 'len', 'capacity': 'cap'}[m.group(1)]]


def m_vec_push(ex, m, argv, guard, st, callee):
    ref = argv[0]
    if not isinstance(ref, PlaceRef):
        raise Unsupported("Vec::push through %s" % type(ref).__name__)
    v = ex.read_ref(st, ref)
    if isinstance(v, Model) and v.kind == 'hvec':
        return m_hvec_push(ex, st, ref, v, argv[1], guard)
    items = list(v.f['items'].fields)
    n = len(items)
    ln = zsimp(v.f['len'])
    full = z3.UGE(ln, bv(n, 64))
    if ex.feasible(zand(guard, full)):
        ex.oblige('bound', zand(guard, full), 'Vec model with %d slots exceeded' % n)
    guard = zand(guard, znot(full))
    if z3.is_bv_value(ln):
        i = ln.as_long()
        if i < n:
            items[i] = argv[1]
    else:
        if os.environ.get('VERIF_DEBUG_PUSH') and isinstance(argv[1], Model):
            print('SYMBOLIC outer len', ln.sexpr()[:400], ex.stack[-2:], st.ckey)
        for i in range(n):
            items[i] = ite_val(ln == bv(i, 64), argv[1], items[i])
    nv = Model('vec', items=Agg(items, 'vecitems'), len=zsimp(ln + bv(1, 64)),
               cap=zsimp(zite(z3.UGE(ln, v.f['cap']), ln + bv(1, 64), v.f['cap'])))
    ex.write_cell(st, ref.cell, ref.path, nv)
    _key_stack_len(st, ref, nv, argv[1])
    return guard, UNIT


def m_vec_deref(ex, m, argv, guard, st, callee):
    hv = _hvec(ex, st, argv[0])
    if hv is not None:
        items = st.mem[hv.f['store']].fields
        present = [x for x in items if x is not None]
        if not present:
            return guard, SliceRef([], bv(0, 64), bv(0, 64))
        return guard, SliceRef([x if x is not None else present[0] for x in items], bv(0, 64), hv.f['len'])
    v = _vec_get(ex, st, argv[0])
    items = v.f['items'].fields
    filler = None
    for x in items:
        if x is not None:
            filler = x
            break
    if filler is None:
        return guard, SliceRef([], bv(0, 64), bv(0, 64))
    return guard, SliceRef([x if x is not None else filler for x in items], bv(0, 64), v.f['len'])


def m_vec_is_empty(ex, m, argv, guard, st, callee):
    hv = _hvec(ex, st, argv[0])
    if hv is not None:
        return guard, hv.f['len'] == bv(0, 64)
    v = _vec_get(ex, st, argv[0])
    return guard, v.f['len'] == bv(0, 64)


# ---- enumset::EnumSet<T> as a bit set (abstract type 'EnumSet' must be registered with its width) ----
def _enum_bit(ex, v, w):
    if not isinstance(v, EnumV):
        raise Unsupported("EnumSet element is %s" % type(v).__name__)
    return bv(1, w) << z3.Extract(w - 1, 0, v.discr)


def m_enumset_remove(ex, m, argv, guard, st, callee):
    ref, val = argv
    if not isinstance(ref, PlaceRef):
        raise Unsupported("EnumSet::%s through %s" % (m.group(1), type(ref).__name__))
    cur = ex.read_ref(st, ref)
    w = cur.size()
    bit = _enum_bit(ex, val, w)
    had = (cur & bit) != bv(0, w)
    if m.group(1) == 'remove':
        ex.write_cell(st, ref.cell, ref.path, cur & ~bit)
        return guard, had
    ex.write_cell(st, ref.cell, ref.path, cur | bit)
    return guard, znot(had)


def m_enumset_contains(ex, m, argv, guard, st, callee):
    cur = deref_any(ex, st, argv[0])
    w = cur.size()
    return guard, (cur & _enum_bit(ex, argv[1], w)) != bv(0, w)


def m_enumset_is_empty(ex, m, argv, guard, st, callee):
    cur = deref_any(ex, st, argv[0])
    return guard, cur == bv(0, cur.size())


def m_identity_iter(ex, m, argv, guard, st, callee):
    return guard, argv[0]


# ---- owned Vec iteration: into_iter().map(closure).collect::<Vec<_>>() -----------------------------------
def m_vec_new(ex, m, argv, guard, st, callee):
    return guard, new_vec(ex.vec_new_slots, bv(0, 64), bv(0, 64))


def _key_stack_len(st, ref, vec, elem=None):
    """A Vec whose elements are Vecs is a stack (scope stack): its length is kept concrete by never merging states that
    disagree on it."""
    is_stack = isinstance(elem, Model) or any(isinstance(x, Model) for x in vec.f['items'].fields)
    if not is_stack:
        return
    ln = zsimp(vec.f['len'])
    k = (ref.cell[0], '%s%r#len' % (ref.cell[1], ref.path))
    if z3.is_bv_value(ln):
        st.ckey[k] = ln.as_long()
    else:
        st.ckey.pop(k, None)


def m_vec_pop(ex, m, argv, guard, st, callee):
    ref = argv[0]
    v = ex.read_ref(st, ref)
    if not (isinstance(v, Model) and v.kind == 'vec'):
        raise Unsupported("Vec::pop on %r" % (v,))
    ln = v.f['len']
    items = v.f['items'].fields
    nonempty = ln != bv(0, 64)
    present = [x for x in items if x is not None]
    none = EnumV(ex.defs.find_enum('Option'), bv(0, 64), {'None': ()})
    if not present:
        return guard, none
    filled = [x if x is not None else present[0] for x in items]
    last = select(filled, ln - bv(1, 64)) if not z3.is_bv_value(zsimp(ln)) or zsimp(ln).as_long() > 0 else present[0]
    nv = Model('vec', items=v.f['items'], len=zsimp(zite(nonempty, ln - bv(1, 64), ln)), cap=v.f['cap'])
    ex.write_cell(st, ref.cell, ref.path, nv)
    _key_stack_len(st, ref, nv)
    return guard, option(ex, nonempty, last)


def m_vec_into_iter(ex, m, argv, guard, st, callee):
    v = argv[0]
    if not (isinstance(v, Model) and v.kind == 'vec'):
        raise Unsupported("Vec::into_iter on %r" % (v,))
    return guard, Model('vec_into_iter', vec=v)


def m_owned_map(ex, m, argv, guard, st, callee):
    it, f = argv
    if not (isinstance(it, Model) and it.kind == 'vec_into_iter'):
        raise Unsupported("Iterator::map on %r" % (it,))
    return guard, Model('map_iter', vec=it.f['vec'], fn=f, rev=it.f.get('rev', False))


def m_map_collect(ex, m, argv, guard, st, callee):
    """collect::<Vec<_>>() of vec.into_iter().map(closure): the closure is applied to the elements in order; element i
    is processed only when i < len (symbolic), the state after a skipped element is the state before it."""
    mp = argv[0]
    if not (isinstance(mp, Model) and mp.kind == 'map_iter'):
        raise Unsupported("collect on %r" % (mp,))
    vec, clo = mp.f['vec'], mp.f['fn']
    if vec.f.get('rev', False):
        raise Unsupported("iteration over a Vec that is stored reversed")
    items = list(vec.f['items'].fields)
    ln = vec.f['len']
    backwards = mp.f.get('rev', False)
    target = find_closure(ex, clo.tag)
    ex.fresh_n += 1
    cell = (0, 'closure%d' % ex.fresh_n)
    st.mem[cell] = clo
    order = list(enumerate(items))
    if backwards:
        order.reverse()
    from mirsym import merge_states
    outcell = (0, 'collect%d' % ex.fresh_n)
    # branches: states that disagree on a merge key (scope-stack depth, cursors) are carried separately through the
    # remaining elements and regrouped after every element
    branches = [(guard, st, {})]
    for i, x in order:
        active = zsimp(z3.ULT(bv(i, 64), ln))
        if x is None or z3.is_false(active):
            continue
        nxt = []
        for g0, s0, out0 in branches:
            before = None if z3.is_true(active) else s0.copy()
            for g2, r, s2 in ex.call_function_multi(target.fn, [PlaceRef(cell), x], zand(g0, active), s0):
                if z3.is_false(g2):
                    continue
                o2 = dict(out0)
                o2[i] = r if r is not None else UNIT
                nxt.append((g2, s2, o2))
            if before is not None:
                # element beyond the (symbolic) length: the slot keeps a placeholder so that this branch merges with the others
                o3 = dict(out0)
                o3[i] = x
                nxt.append((zand(g0, znot(active)), before, o3))
        groups = {}
        for g_, s_, o_ in nxt:
            groups.setdefault((s_.key(), tuple(sorted(o_))), []).append((g_, s_, o_))
        branches = []
        for gk in sorted(groups, key=repr):
            grp = groups[gk]
            if len(grp) == 1:
                branches.append(grp[0])
                continue
            idx = sorted(grp[0][2])
            for g_, s_, o_ in grp:
                s_.mem[outcell] = Agg([o_[j] for j in idx], 'collected')
            gm, sm = merge_states([(g_, s_) for g_, s_, _ in grp])
            om = dict(zip(idx, sm.mem.pop(outcell).fields))
            branches.append((gm, sm, om))
    res = []
    for g_, s_, o_ in branches:
        s_.mem.pop(cell, None)
        out = [o_.get(j) for j in range(len(items))]
        # one spare slot so that a following push does not exceed the model; results of a reversed iteration are kept
        # at the index of their source element, the logical order is the reverse
        kw = {'rev': True} if backwards else {}
        v = Model('vec', items=Agg(out + [None], 'vecitems'), len=ln, cap=zsimp(ln + bv(1, 64)), **kw)
        res.append((g_, v, s_))
    if len(res) == 1:
        s_ = res[0][2]
        if s_ is not st:
            st.mem, st.dom, st.ckey = s_.mem, s_.dom, s_.ckey
        return res[0][0], res[0][1]
    return res


def m_into_iter_rev(ex, m, argv, guard, st, callee):
    it = argv[0]
    if not (isinstance(it, Model) and it.kind == 'vec_into_iter'):
        raise Unsupported("rev on %r" % (it,))
    return guard, Model('vec_into_iter', vec=it.f['vec'], rev=True)


def m_vec_deref_mut(ex, m, argv, guard, st, callee):
    ref = argv[0]
    if not isinstance(ref, PlaceRef):
        raise Unsupported("Vec::deref_mut through %s" % type(ref).__name__)
    return guard, Model('vec_mut_slice', ref=ref)


def m_slice_reverse(ex, m, argv, guard, st, callee):
    ms = argv[0]
    if not (isinstance(ms, Model) and ms.kind == 'vec_mut_slice'):
        raise Unsupported("slice::reverse on %r" % (ms,))
    v = ex.read_ref(st, ms.f['ref'])
    f = dict(v.f)
    # a vec collected from a reversed iterator is stored in source order with the flag `rev` set; reversing it clears the flag
    f['rev'] = not v.f.get('rev', False)
    ex.write_cell(st, ms.f['ref'].cell, ms.f['ref'].path, Model('vec', **f))
    return guard, UNIT


def m_last_mut(ex, m, argv, guard, st, callee):
    ms = argv[0]
    if not (isinstance(ms, Model) and ms.kind == 'vec_mut_slice'):
        raise Unsupported("last_mut on %r" % (ms,))
    ref = ms.f['ref']
    v = ex.read_ref(st, ref)
    ln = zsimp(v.f['len'])
    none = EnumV(ex.defs.find_enum('Option'), bv(0, 64), {'None': ()})
    if not z3.is_bv_value(ln):
        raise Unsupported("last_mut on a Vec of symbolic length")
    if ln.as_long() == 0:
        return guard, none
    return guard, EnumV(ex.defs.find_enum('Option'), bv(1, 64),
                        {'Some': (PlaceRef(ref.cell, ref.path + (('vecitem', ln.as_long() - 1),)),)})


def m_iter_find(ex, m, argv, guard, st, callee):
    """slice::Iter::find(closure): the first element in range for which the (pure) predicate holds."""
    it = _iter_get(ex, st, argv[0])
    s = it.f['slice']
    target = find_closure(ex, re.search(r'\{closure@[^}]*\}', callee).group(0))
    cl = argv[1]
    ex.fresh_n += 1
    cell = (0, 'closure%d' % ex.fresh_n)
    st.mem[cell] = cl
    none = EnumV(ex.defs.find_enum('Option'), bv(0, 64), {'None': ()})
    res = none
    first = target.fn.params[0][1]
    for j in range(len(s.backing) - 1, -1, -1):
        elem = s.backing[j]
        active = zsimp(zand(z3.ULE(s.start + it.f['pos'], bv(j, 64)), z3.ULT(bv(j, 64), s.start + s.length)))
        if z3.is_false(active) or elem is None:
            continue
        a0 = PlaceRef(cell) if first.startswith('&mut') else ValRef(cl)
        g2, b = ex.call_function(target.fn, [a0, ValRef(ValRef(elem))], zand(guard, active), st.copy())
        hit = zand(active, b)
        res = ite_val(hit, EnumV(ex.defs.find_enum('Option'), bv(1, 64), {'Some': (ValRef(elem),)}), res)
    del st.mem[cell]
    return guard, res


def m_iter_filter(ex, m, argv, guard, st, callee):
    it = argv[0]
    if not (isinstance(it, Model) and it.kind == 'slice_iter'):
        raise Unsupported("filter on %r" % (it,))
    return guard, Model('filter_iter', it=it, fn=argv[1])


def m_filter_count(ex, m, argv, guard, st, callee):
    fi = argv[0]
    if not (isinstance(fi, Model) and fi.kind == 'filter_iter'):
        raise Unsupported("count on %r" % (fi,))
    it, cl = fi.f['it'], fi.f['fn']
    s = it.f['slice']
    target = find_closure(ex, cl.tag)
    ex.fresh_n += 1
    cell = (0, 'closure%d' % ex.fresh_n)
    st.mem[cell] = cl
    total = bv(0, 64)
    for j, elem in enumerate(s.backing):
        active = zsimp(zand(z3.ULE(s.start + it.f['pos'], bv(j, 64)), z3.ULT(bv(j, 64), s.start + s.length)))
        if z3.is_false(active) or elem is None:
            continue
        item = ValRef(elem) if it.f['by_ref'] else elem
        g2, b = ex.call_function(target.fn, [PlaceRef(cell), ValRef(item)], zand(guard, active), st.copy())
        total = total + zite(zand(active, b), bv(1, 64), bv(0, 64))
    del st.mem[cell]
    return guard, total


# ---- HashSet<u32> as a bit set of `abstract_types['HashSet']` bits: members are assumed below that width (a larger member is a
# 'bound' obligation, i.e. outside the model, never silently dropped)
def _hs_width(ex):
    w = ex.abstract_types.get('HashSet')
    if not w:
        raise Unsupported("HashSet without a bit-set width (abstract_types['HashSet'])")
    return w


def _hs_bit(ex, guard, idv):
    w = _hs_width(ex)
    if not is_z3(idv):
        raise Unsupported("HashSet member %r" % (idv,))
    n = idv.size()
    ex.oblige('bound', zand(guard, z3.UGE(idv, bv(w, n))), 'HashSet member beyond the %d-bit set model' % w)
    sh = z3.Extract(w - 1, 0, idv) if n > w else (z3.ZeroExt(w - n, idv) if n < w else idv)
    return bv(1, w) << sh


# ---- HashMap<u32, V> as a fixed number of slots (present flag, key, value); `hmap_slots` of the executor sizes new maps
def new_hmap(n, slots=None):
    if slots is None:
        slots = [Agg([z3.BoolVal(False), bv(0, 32), None], 'hslot') for _ in range(n)]
    return Model('hmap', slots=Agg(slots, 'hslots'))


def _hmap_of(ex, st, a):
    v = deref_any(ex, st, a)
    if not (isinstance(v, Model) and v.kind == 'hmap'):
        raise Unsupported("not a modelled HashMap: %r" % (v,))
    return v


def hmap_lookup(mp, key):
    """(found, value) of `key` in the map model (value: structured if-then-else over the slots, None if no slot has one)."""
    found, val = z3.BoolVal(False), None
    for sl in reversed(mp.f['slots'].fields):
        p_, k_, v_ = sl.fields
        hit = zand(p_, k_ == key)
        found = zor(hit, found)
        if v_ is not None:
            val = v_ if val is None else ite_val(hit, v_, val)
    return zsimp(found), val


def m_hmap_new(ex, m, argv, guard, st, callee):
    return guard, new_hmap(getattr(ex, 'hmap_slots', 4))


def m_hmap_get(ex, m, argv, guard, st, callee):
    mp, key = _hmap_of(ex, st, argv[0]), deref_any(ex, st, argv[1])
    found, val = hmap_lookup(mp, key)
    none = EnumV(ex.defs.find_enum('Option'), bv(0, 64), {'None': ()})
    if val is None:
        return guard, none
    if m.group(1) == 'contains_key':
        return guard, found
    return guard, option(ex, found, ValRef(val))


def m_hmap_insert(ex, m, argv, guard, st, callee):
    ref, key, value = argv
    if not isinstance(ref, PlaceRef):
        raise Unsupported("HashMap::insert through %s" % type(ref).__name__)
    mp = _hmap_of(ex, st, ref)
    slots = mp.f['slots'].fields
    hits = [zand(sl.fields[0], sl.fields[1] == key) for sl in slots]
    any_hit = zor(*hits)
    taken_before = z3.BoolVal(False)
    new_slots, old = [], None
    no_free = z3.BoolVal(True)
    for sl, hit in zip(slots, hits):
        p_, k_, v_ = sl.fields
        first_free = zand(znot(p_), znot(taken_before))
        taken_before = zor(taken_before, znot(p_))
        no_free = zand(no_free, p_)
        put = zor(hit, zand(znot(any_hit), first_free))
        new_slots.append(Agg([zsimp(zor(p_, put)), zsimp(zite(put, key, k_)), value if v_ is None else ite_val(put, value, v_)], 'hslot'))
        if v_ is not None:
            old = v_ if old is None else ite_val(hit, v_, old)
    ex.oblige('bound', zand(guard, znot(any_hit), no_free), 'HashMap model with %d slots exceeded' % len(slots))
    ex.write_cell(st, ref.cell, ref.path, Model('hmap', slots=Agg(new_slots, 'hslots')))
    none = EnumV(ex.defs.find_enum('Option'), bv(0, 64), {'None': ()})
    return guard, (none if old is None else option(ex, zsimp(any_hit), old))


# ---- std::path::{Path, PathBuf} as a sequence of at most PATH_SLOTS normalised components (8-bit tokens) plus an "absolute"
# flag; `.`/`..`, prefixes and trailing separators are outside the model (callers assume normalised paths)
PATH_SLOTS = 3


def new_path(comps, ln, absolute):
    return Model('path', c=Agg(list(comps), 'pathcomps'), len=ln, abs=absolute)


def _path_of(ex, st, a):
    v = deref_any(ex, st, a)
    if not (isinstance(v, Model) and v.kind == 'path'):
        raise Unsupported("not a modelled path: %r" % (v,))
    return v


def path_eq(a, b):
    cs = [a.f['len'] == b.f['len'], a.f['abs'] == b.f['abs']]
    for i, (x, y) in enumerate(zip(a.f['c'].fields, b.f['c'].fields)):
        cs.append(z3.Implies(z3.ULT(bv(i, 64), a.f['len']), x == y))
    return zand(*cs)


def m_path_identity(ex, m, argv, guard, st, callee):
    return guard, ValRef(_path_of(ex, st, argv[0]))


def m_path_eq(ex, m, argv, guard, st, callee):
    r = path_eq(_path_of(ex, st, argv[0]), _path_of(ex, st, argv[1]))
    return guard, (znot(r) if m.group(1) == 'ne' else r)


def m_path_parent(ex, m, argv, guard, st, callee):
    p = _path_of(ex, st, argv[0])
    has = p.f['len'] != bv(0, 64)
    parent = new_path(p.f['c'].fields, zsimp(p.f['len'] - bv(1, 64)), p.f['abs'])
    return guard, option(ex, zsimp(has), ValRef(parent))


def m_path_join(ex, m, argv, guard, st, callee):
    a, b = _path_of(ex, st, argv[0]), _path_of(ex, st, argv[1])
    n = len(a.f['c'].fields)
    total = a.f['len'] + b.f['len']
    ex.oblige('bound', zand(guard, znot(b.f['abs']), z3.UGT(total, bv(n, 64))), 'joined path longer than the %d-component model' % n)
    comps = []
    for i in range(n):
        # component i of a ++ b
        v = a.f['c'].fields[i]
        for j in range(n):
            v = zite(zand(znot(z3.ULT(bv(i, 64), a.f['len'])), a.f['len'] + bv(j, 64) == bv(i, 64)), b.f['c'].fields[j], v)
        comps.append(zite(b.f['abs'], b.f['c'].fields[i], v))
    return guard, new_path(comps, zsimp(zite(b.f['abs'], b.f['len'], total)), zsimp(zor(b.f['abs'], a.f['abs'])))


def m_path_ends_with(ex, m, argv, guard, st, callee):
    a, b = _path_of(ex, st, argv[0]), _path_of(ex, st, argv[1])
    n = len(a.f['c'].fields)
    suffix = [z3.ULE(b.f['len'], a.f['len'])]
    off = a.f['len'] - b.f['len']
    for j in range(n):
        pick = a.f['c'].fields[0]
        for i in range(n):
            pick = zite(off + bv(j, 64) == bv(i, 64), a.f['c'].fields[i], pick)
        suffix.append(z3.Implies(z3.ULT(bv(j, 64), b.f['len']), pick == b.f['c'].fields[j]))
    return guard, zite(b.f['abs'], path_eq(a, b), zand(*suffix))


def m_path_starts_with(ex, m, argv, guard, st, callee):
    """Path::starts_with: whole components; the empty relative path is a prefix of every path, otherwise the root flag must
    agree (std compares RootDir as a component)."""
    a, b = _path_of(ex, st, argv[0]), _path_of(ex, st, argv[1])
    pre = [a.f['abs'] == b.f['abs'], z3.ULE(b.f['len'], a.f['len'])]
    for j, (x, y) in enumerate(zip(a.f['c'].fields, b.f['c'].fields)):
        pre.append(z3.Implies(z3.ULT(bv(j, 64), b.f['len']), x == y))
    return guard, zor(zand(b.f['len'] == bv(0, 64), znot(b.f['abs'])), zand(*pre))


def m_iter_position(ex, m, argv, guard, st, callee):
    """slice::Iter::position(pure predicate): index of the first element in range that satisfies it."""
    it = _iter_get(ex, st, argv[0])
    s = it.f['slice']
    cl = argv[1]
    target = find_closure(ex, cl.tag)
    ex.fresh_n += 1
    cell = (0, 'closure%d' % ex.fresh_n)
    st.mem[cell] = cl
    idx, found = bv(0, 64), z3.BoolVal(False)
    for j in range(len(s.backing) - 1, -1, -1):
        elem = s.backing[j]
        active = zsimp(zand(z3.ULE(s.start + it.f['pos'], bv(j, 64)), z3.ULT(bv(j, 64), s.start + s.length)))
        if z3.is_false(active) or elem is None:
            continue
        item = ValRef(elem) if it.f['by_ref'] else elem
        _g, b = ex.call_function(target.fn, [PlaceRef(cell), item], zand(guard, active), st.copy())
        hit = zand(active, b)
        idx = zite(hit, bv(j, 64) - s.start - it.f['pos'], idx)
        found = zor(hit, found)
    del st.mem[cell]
    return guard, option(ex, zsimp(found), zsimp(idx))


def m_option_or_else(ex, m, argv, guard, st, callee):
    o, f = argv
    some = zsimp(option_is_some(o))
    if z3.is_true(some):
        return guard, o
    st2 = st.copy()
    g2, v = call_closure(ex, f, [], zand(guard, znot(some)), st2)
    if 'Some' not in o.variants or z3.is_false(some):
        return g2, v
    return zor(zand(guard, some), g2), ite_val(some, o, v)


def m_result_is(ex, m, argv, guard, st, callee):
    r = deref_any(ex, st, argv[0])
    ok = r.discr == bv(0, 64)
    return guard, (ok if m.group(1) == 'is_ok' else znot(ok))


def m_ref_not(ex, m, argv, guard, st, callee):
    """<&bool as Not>::not / <&uN as Not>::not: negation through a reference."""
    v = deref_any(ex, st, argv[0])
    if z3.is_bool(v):
        return guard, znot(v)
    return guard, ~v


def m_next_power_of_two(ex, m, argv, guard, st, callee):
    """uN::next_power_of_two: the smallest power of two >= x (1 for 0); a result that does not fit panics in debug builds."""
    x = argv[0]
    w = x.size()

    def npot(c):
        v, p = c.as_long(), 1
        while p < v:
            p *= 2
        return bv(p % (1 << w), w)
    d = over_const_leaves(x, npot)
    if d is not None:
        ex.oblige('panic', zand(guard, z3.UGT(x, bv(1 << (w - 1), w))), 'next_power_of_two overflow')
        return zand(guard, z3.ULE(x, bv(1 << (w - 1), w))), zsimp(d)
    res = bv(1 << (w - 1), w)
    for k in range(w - 2, -1, -1):
        res = zite(z3.ULE(x, bv(1 << k, w)), bv(1 << k, w), res)
    ex.oblige('panic', zand(guard, z3.UGT(x, bv(1 << (w - 1), w))), 'next_power_of_two overflow')
    return zand(guard, z3.ULE(x, bv(1 << (w - 1), w))), zsimp(res)


def m_hashset_new(ex, m, argv, guard, st, callee):
    return guard, bv(0, _hs_width(ex))


def m_hashset_insert(ex, m, argv, guard, st, callee):
    ref, idv = argv[0], deref_any(ex, st, argv[1])
    if not isinstance(ref, PlaceRef):
        raise Unsupported("HashSet::insert through %s" % type(ref).__name__)
    old = ex.read_ref(st, ref)
    bit = _hs_bit(ex, guard, idv)
    ex.write_cell(st, ref.cell, ref.path, zsimp(old | bit))
    return guard, zsimp((old & bit) == bv(0, _hs_width(ex)))


def m_hashset_contains(ex, m, argv, guard, st, callee):
    sv, idv = deref_any(ex, st, argv[0]), deref_any(ex, st, argv[1])
    bit = _hs_bit(ex, guard, idv)
    return guard, zsimp((sv & bit) != bv(0, _hs_width(ex)))


def m_hashset_is_empty(ex, m, argv, guard, st, callee):
    return guard, zsimp(deref_any(ex, st, argv[0]) == bv(0, _hs_width(ex)))


def m_hashset_binop(ex, m, argv, guard, st, callee):
    a, b = deref_any(ex, st, argv[0]), deref_any(ex, st, argv[1])
    op = m.group(1)
    if op == 'BitOr':
        return guard, zsimp(a | b)
    if op == 'BitAnd':
        return guard, zsimp(a & b)
    if op == 'Sub':
        return guard, zsimp(a & ~b)
    if op == 'BitXor':
        return guard, zsimp(a ^ b)
    raise Unsupported("HashSet operator %s" % op)


def m_hashset_update(ex, m, argv, guard, st, callee):
    """In-place updates of a HashSet<u32>: extend(&other / other), remove(&id), clear()."""
    ref = argv[0]
    if not isinstance(ref, PlaceRef):
        raise Unsupported("HashSet::%s through %s" % (m.group(1), type(ref).__name__))
    old = ex.read_ref(st, ref)
    w = _hs_width(ex)
    op = m.group(1)
    if op == 'clear':
        ex.write_cell(st, ref.cell, ref.path, bv(0, w))
        return guard, UNIT
    other = deref_any(ex, st, argv[1])
    if op == 'extend':
        if not (is_z3(other) and other.size() == w):
            raise Unsupported("HashSet::extend with %r" % (other,))
        ex.write_cell(st, ref.cell, ref.path, zsimp(old | other))
        return guard, UNIT
    if op == 'remove':
        bit = _hs_bit(ex, guard, other)
        ex.write_cell(st, ref.cell, ref.path, zsimp(old & ~bit))
        return guard, zsimp((old & bit) != bv(0, w))
    raise Unsupported("HashSet::%s" % op)


def m_hashset_relation(ex, m, argv, guard, st, callee):
    a, b = deref_any(ex, st, argv[0]), deref_any(ex, st, argv[1])
    w = _hs_width(ex)
    op = m.group(1)
    if op == 'is_subset':
        return guard, zsimp((a & ~b) == bv(0, w))
    if op == 'is_superset':
        return guard, zsimp((b & ~a) == bv(0, w))
    if op == 'is_disjoint':
        return guard, zsimp((a & b) == bv(0, w))
    raise Unsupported("HashSet::%s" % op)


def m_hashset_len(ex, m, argv, guard, st, callee):
    sv = deref_any(ex, st, argv[0])
    total = bv(0, 64)
    for i in range(_hs_width(ex)):
        total = total + z3.ZeroExt(63, z3.Extract(i, i, sv))
    return guard, zsimp(total)


# ---- slice::IterMut over a whole Vec (fixed-slot model): elements are handed out as places inside the Vec
def m_vec_iter_mut(ex, m, argv, guard, st, callee):
    a = argv[0]
    if isinstance(a, Model) and a.kind == 'vec_mut_slice':
        ref = a.f['ref']
    elif isinstance(a, PlaceRef):
        ref = a
    else:
        raise Unsupported("iter_mut on %r" % (a,))
    v = ex.read_ref(st, ref)
    if not (isinstance(v, Model) and v.kind == 'vec') or v.f.get('rev', False):
        raise Unsupported("iter_mut over %r" % (v,))
    return guard, Model('vec_iter_mut', ref=ref, pos=bv(0, 64))


def _iter_mut_get(ex, st, a):
    it = ex.read_ref(st, a) if isinstance(a, PlaceRef) else a
    if not (isinstance(it, Model) and it.kind == 'vec_iter_mut'):
        raise Unsupported("not a modelled IterMut: %r" % (it,))
    return it


def m_iter_mut_next(ex, m, argv, guard, st, callee):
    a = argv[0]
    if not isinstance(a, PlaceRef):
        raise Unsupported("IterMut::next through %s" % type(a).__name__)
    it = _iter_mut_get(ex, st, a)
    ref, p = it.f['ref'], zsimp(it.f['pos'])
    if not z3.is_bv_value(p):
        raise Unsupported("IterMut::next at a symbolic position")
    p = p.as_long()
    v = ex.read_ref(st, ref)
    items = v.f['items'].fields
    none = EnumV(ex.defs.find_enum('Option'), bv(0, 64), {'None': ()})
    if p >= len(items) or items[p] is None:
        ex.oblige('bound', zand(guard, z3.UGT(v.f['len'], bv(p, 64))), 'IterMut beyond the slots of the Vec model')
        return guard, none
    has = zsimp(z3.ULT(bv(p, 64), v.f['len']))
    ex.write_cell(st, a.cell, a.path, Model('vec_iter_mut', ref=ref, pos=bv(p + 1, 64)))
    if not a.path:
        st.ckey[a.cell] = p + 1
    return guard, option(ex, has, PlaceRef(ref.cell, ref.path + (('vecitem', p),)))


def m_iter_mut_find(ex, m, argv, guard, st, callee):
    """IterMut::find(pure predicate): Some(place of the first matching element); the index of that element is a term."""
    it = _iter_mut_get(ex, st, argv[0])
    ref, p0 = it.f['ref'], zsimp(it.f['pos'])
    if not z3.is_bv_value(p0):
        raise Unsupported("IterMut::find at a symbolic position")
    p0 = p0.as_long()
    v = ex.read_ref(st, ref)
    items = v.f['items'].fields
    cl = argv[1]
    target = find_closure(ex, cl.tag)
    ex.fresh_n += 1
    cell = (0, 'closure%d' % ex.fresh_n)
    st.mem[cell] = cl
    first = target.fn.params[0][1]
    idx, found = bv(len(items), 64), z3.BoolVal(False)
    for j in range(len(items) - 1, p0 - 1, -1):
        if items[j] is None:
            continue
        active = zsimp(z3.ULT(bv(j, 64), v.f['len']))
        if z3.is_false(active):
            continue
        a0 = PlaceRef(cell) if first.startswith('&mut') else ValRef(cl)
        place = PlaceRef(ref.cell, ref.path + (('vecitem', j),))
        g2, b = ex.call_function(target.fn, [a0, ValRef(place)], zand(guard, active), st.copy())
        hit = zand(active, b)
        idx = zite(hit, bv(j, 64), idx)
        found = zor(hit, found)
    del st.mem[cell]
    idx = zsimp(idx)
    if isinstance(argv[0], PlaceRef):
        pass        # the iterator is consumed by the callers modelled here (find on a temporary)
    return guard, option(ex, zsimp(found), PlaceRef(ref.cell, ref.path + (('vecsel', idx),)))


def m_result_map_err(ex, m, argv, guard, st, callee):
    """Result::map_err(f) / Result::map(f): the closure is applied to the payload of the one variant, the other passes."""
    r, f = argv
    which = 'Err' if m.group(1) == 'map_err' else 'Ok'
    other = 'Ok' if which == 'Err' else 'Err'
    d_which = bv(1 if which == 'Err' else 0, 64)
    hit = zsimp(r.discr == d_which)
    rdef = ex.defs.find_enum('Result')
    if which not in r.variants or z3.is_false(hit):
        return guard, EnumV(rdef, r.discr, {other: r.variants[other]} if other in r.variants else {})
    before = st.copy()
    g2, v = call_closure(ex, f, [r.variants[which][0]], zand(guard, hit), st)
    if not z3.is_true(hit):
        from mirsym import merge_states
        _g, merged = merge_states([(hit, st.copy()), (znot(hit), before)])
        st.mem, st.dom, st.ckey = merged.mem, merged.dom, merged.ckey
    vs = {which: (v,)}
    if other in r.variants:
        vs[other] = r.variants[other]
    return zor(zand(guard, znot(hit)), g2), EnumV(rdef, r.discr, vs)


def m_option_flatten(ex, m, argv, guard, st, callee):
    o = argv[0]
    none = EnumV(ex.defs.find_enum('Option'), bv(0, 64), {'None': ()})
    if 'Some' not in o.variants:
        return guard, none
    return guard, ite_val(option_is_some(o), o.variants['Some'][0], none)


def m_iter_skip(ex, m, argv, guard, st, callee):
    it, n = argv
    if not (isinstance(it, Model) and it.kind == 'slice_iter'):
        raise Unsupported("skip on %r" % (it,))
    s = it.f['slice']
    f = dict(it.f)
    p = it.f['pos'] + n
    f['pos'] = zsimp(zite(z3.ULE(p, s.length), p, s.length))
    return guard, Model('slice_iter', **f)


def m_iter_flat_map(ex, m, argv, guard, st, callee):
    it = argv[0]
    if not (isinstance(it, Model) and it.kind == 'slice_iter'):
        raise Unsupported("flat_map on %r" % (it,))
    return guard, Model('flat_map_iter', it=it, fn=argv[1])


def m_flat_map_find(ex, m, argv, guard, st, callee):
    """FlatMap<slice iterator, slice::Iter, f>::find(p): the first inner element, in order, that satisfies the pure
    predicate; f maps an outer element to an iterator over a slice."""
    fm = ex.read_ref(st, argv[0]) if isinstance(argv[0], PlaceRef) else argv[0]
    if not (isinstance(fm, Model) and fm.kind == 'flat_map_iter'):
        raise Unsupported("find on %r" % (fm,))
    it, cl1, cl2 = fm.f['it'], fm.f['fn'], argv[1]
    s = it.f['slice']
    t1, t2 = find_closure(ex, cl1.tag), find_closure(ex, cl2.tag)
    ex.fresh_n += 1
    c1, c2 = (0, 'closure%da' % ex.fresh_n), (0, 'closure%db' % ex.fresh_n)
    st.mem[c1], st.mem[c2] = cl1, cl2
    res = EnumV(ex.defs.find_enum('Option'), bv(0, 64), {'None': ()})
    for j in range(len(s.backing) - 1, -1, -1):
        elem = s.backing[j]
        active = zsimp(zand(z3.ULE(s.start + it.f['pos'], bv(j, 64)), z3.ULT(bv(j, 64), s.start + s.length)))
        if z3.is_false(active) or elem is None:
            continue
        item = ValRef(elem) if it.f['by_ref'] else elem
        _g, inner = ex.call_function(t1.fn, [PlaceRef(c1), item], zand(guard, active), st.copy())
        if not (isinstance(inner, Model) and inner.kind == 'slice_iter'):
            raise Unsupported("flat_map closure returns %r" % (inner,))
        si = inner.f['slice']
        for k in range(len(si.backing) - 1, -1, -1):
            e2 = si.backing[k]
            act2 = zsimp(zand(active, z3.ULE(si.start + inner.f['pos'], bv(k, 64)), z3.ULT(bv(k, 64), si.start + si.length)))
            if z3.is_false(act2) or e2 is None:
                continue
            item2 = ValRef(e2) if inner.f['by_ref'] else e2
            _g, b = ex.call_function(t2.fn, [PlaceRef(c2), ValRef(item2)], zand(guard, act2), st.copy())
            res = ite_val(zand(act2, b), EnumV(ex.defs.find_enum('Option'), bv(1, 64), {'Some': (item2,)}), res)
    del st.mem[c1]
    del st.mem[c2]
    return guard, res


def m_filter_map(ex, m, argv, guard, st, callee):
    fi = argv[0]
    if not (isinstance(fi, Model) and fi.kind == 'filter_iter'):
        raise Unsupported("map on %r" % (fi,))
    return guard, Model('map_filter_iter', fi=fi, fn=argv[1])


def m_map_filter_find(ex, m, argv, guard, st, callee):
    """Map<Filter<slice::Iter, p>, f>::find(q): the image f(x) of the first element x in range with p(x) and q(&f(x));
    all three closures are pure."""
    mf = ex.read_ref(st, argv[0]) if isinstance(argv[0], PlaceRef) else argv[0]
    if not (isinstance(mf, Model) and mf.kind == 'map_filter_iter'):
        raise Unsupported("find on %r" % (mf,))
    fi, clm, clq = mf.f['fi'], mf.f['fn'], argv[1]
    it, clp = fi.f['it'], fi.f['fn']
    s = it.f['slice']
    tp, tm, tq = find_closure(ex, clp.tag), find_closure(ex, clm.tag), find_closure(ex, clq.tag)
    ex.fresh_n += 1
    cells = [(0, 'closure%d%s' % (ex.fresh_n, x)) for x in 'pmq']
    for c, v in zip(cells, (clp, clm, clq)):
        st.mem[c] = v
    res = EnumV(ex.defs.find_enum('Option'), bv(0, 64), {'None': ()})
    for j in range(len(s.backing) - 1, -1, -1):
        elem = s.backing[j]
        active = zsimp(zand(z3.ULE(s.start + it.f['pos'], bv(j, 64)), z3.ULT(bv(j, 64), s.start + s.length)))
        if z3.is_false(active) or elem is None:
            continue
        item = ValRef(elem) if it.f['by_ref'] else elem
        _g, b1 = ex.call_function(tp.fn, [PlaceRef(cells[0]), ValRef(item)], zand(guard, active), st.copy())
        _g, mapped = ex.call_function(tm.fn, [PlaceRef(cells[1]), item], zand(guard, active, b1), st.copy())
        _g, b2 = ex.call_function(tq.fn, [PlaceRef(cells[2]), ValRef(mapped)], zand(guard, active, b1), st.copy())
        res = ite_val(zand(active, b1, b2), EnumV(ex.defs.find_enum('Option'), bv(1, 64), {'Some': (mapped,)}), res)
    for c in cells:
        del st.mem[c]
    return guard, res


def m_filter_find(ex, m, argv, guard, st, callee):
    """Filter<slice::Iter, p>::find(q): the first element in range that satisfies both pure predicates."""
    fi = ex.read_ref(st, argv[0]) if isinstance(argv[0], PlaceRef) else argv[0]
    if not (isinstance(fi, Model) and fi.kind == 'filter_iter'):
        raise Unsupported("find on %r" % (fi,))
    it, cl1, cl2 = fi.f['it'], fi.f['fn'], argv[1]
    s = it.f['slice']
    t1, t2 = find_closure(ex, cl1.tag), find_closure(ex, cl2.tag)
    ex.fresh_n += 1
    c1, c2 = (0, 'closure%da' % ex.fresh_n), (0, 'closure%db' % ex.fresh_n)
    st.mem[c1], st.mem[c2] = cl1, cl2
    res = EnumV(ex.defs.find_enum('Option'), bv(0, 64), {'None': ()})
    for j in range(len(s.backing) - 1, -1, -1):
        elem = s.backing[j]
        active = zsimp(zand(z3.ULE(s.start + it.f['pos'], bv(j, 64)), z3.ULT(bv(j, 64), s.start + s.length)))
        if z3.is_false(active) or elem is None:
            continue
        item = ValRef(elem) if it.f['by_ref'] else elem
        _g, b1 = ex.call_function(t1.fn, [PlaceRef(c1), ValRef(item)], zand(guard, active), st.copy())
        _g, b2 = ex.call_function(t2.fn, [PlaceRef(c2), ValRef(item)], zand(guard, active, b1), st.copy())
        hit = zand(active, b1, b2)
        res = ite_val(hit, EnumV(ex.defs.find_enum('Option'), bv(1, 64), {'Some': (item,)}), res)
    del st.mem[c1]
    del st.mem[c2]
    return guard, res


def m_range_next(ex, m, argv, guard, st, callee):
    ref = argv[0]
    if not isinstance(ref, PlaceRef):
        raise Unsupported("Range::next through %s" % type(ref).__name__)
    r = ex.read_ref(st, ref)
    lo, hi = r.fields[0], r.fields[1]
    has = zsimp(z3.ULT(lo, hi)) if not ex.var_bounds else (lambda d: z3.BoolVal(d) if d is not None else zsimp(z3.ULT(lo, hi)))(ex.decide_cmp('Lt', zsimp(lo), zsimp(hi)))
    ex.write_cell(st, ref.cell, ref.path, Agg([zsimp(zite(has, lo + bv(1, lo.size()), lo)), hi], r.tag))
    return guard, option(ex, has, lo)


def m_split_off_first(ex, m, argv, guard, st, callee):
    ref = argv[0]
    if not isinstance(ref, PlaceRef):
        raise Unsupported("split_off_first through %s" % type(ref).__name__)
    s = ex.read_ref(st, ref)
    if not isinstance(s, SliceRef):
        raise Unsupported("split_off_first on %s" % type(s).__name__)
    none = EnumV(ex.defs.find_enum('Option'), bv(0, 64), {'None': ()})
    if not s.backing:
        return guard, none
    nonempty = zsimp(s.length != bv(0, 64))
    first = ValRef(select(s.backing, s.start)) if not z3.is_false(nonempty) else None
    ex.write_cell(st, ref.cell, ref.path,
                  SliceRef(s.backing, zsimp(zite(nonempty, s.start + bv(1, 64), s.start)), zsimp(zite(nonempty, s.length - bv(1, 64), s.length))))
    if first is None:
        return guard, none
    return guard, option(ex, nonempty, first)


def m_option_copied(ex, m, argv, guard, st, callee):
    o = argv[0]
    if 'Some' not in o.variants:
        return guard, o
    inner = o.variants['Some'][0]
    v = ex.deref(st, inner) if isinstance(inner, (ValRef, PlaceRef)) else inner
    return guard, EnumV(o.edef, o.discr, {'None': (), 'Some': (v,)})


def m_vec_index(ex, m, argv, guard, st, callee):
    sl_g, sl = m_vec_deref(ex, m, argv, guard, st, callee)
    i = argv[1]
    bad = z3.UGE(i, sl.length)
    ex.oblige('panic', zand(guard, bad), 'Vec index out of bounds')
    if not sl.backing:
        return FALSE, None
    return zand(guard, znot(bad)), ValRef(select(sl.backing, sl.start + i))


def m_vec_index_range(ex, m, argv, guard, st, callee):
    """Vec / slice indexed by RangeFrom, Range, RangeTo: a sub-slice, with the bounds check as an obligation."""
    if m.group(1) == 'Vec':
        _g, sl = m_vec_deref(ex, m, argv, guard, st, callee)
    else:
        sl = as_slice(ex, st, argv[0])
    r = argv[1]
    kind = m.group(2)
    if kind == 'RangeFrom':
        lo, hi = r.fields[0], sl.length
    elif kind == 'RangeTo':
        lo, hi = bv(0, 64), r.fields[0]
    else:
        lo, hi = r.fields[0], r.fields[1]
    bad = zor(z3.UGT(lo, hi), z3.UGT(hi, sl.length))
    ex.oblige('panic', zand(guard, bad), 'range index out of bounds')
    return zand(guard, znot(bad)), SliceRef(sl.backing, zsimp(sl.start + lo), zsimp(hi - lo))


def m_to_le_bytes(ex, m, argv, guard, st, callee):
    w = INT_W[m.group(1)]
    v = argv[0]
    return guard, Agg([z3.Extract(8 * k + 7, 8 * k, v) for k in range(w // 8)], 'array')


def m_from_le_bytes(ex, m, argv, guard, st, callee):
    a = argv[0]
    bs = list(a.fields)
    return guard, z3.Concat(*reversed(bs)) if len(bs) > 1 else bs[0]


def m_into_generic(ex, m, argv, guard, st, callee):
    src, dst = m.group(1).strip(), m.group(2).strip()
    if strip_paths(src) == strip_paths(dst) and src.split('::')[-1] == dst.split('::')[-1] and src == dst:
        return guard, argv[0]
    target = ex.resolve_callee('<%s as From<%s>>::from' % (dst, src))
    if target is None:
        if int_info(src) and int_info(dst):
            return m_from_int(ex, re.match(r'(\w+) (\w+)', '%s %s' % (dst, src)), argv, guard, st, callee)
        if src == dst:
            return guard, argv[0]
        raise Unsupported("Into %s -> %s: no From impl in the dump" % (src, dst))
    return ex.call_function_multi(target, argv, guard, st)


def m_fn_trait_call(ex, m, argv, guard, st, callee):
    f = argv[0]
    args = argv[1]
    spread = [] if isinstance(args, Unit) else list(args.fields)
    inner = f
    while isinstance(inner, (ValRef, PlaceRef)):
        inner = ex.deref(st, inner)
    if isinstance(inner, FnItem):
        return ex.do_call(None_fn, inner.text, spread, guard, st)
    if isinstance(inner, Agg) and inner.tag and inner.tag.startswith('{closure@'):
        target = find_closure(ex, inner.tag)
        first = target.fn.params[0][1]
        a0 = f if isinstance(f, (ValRef, PlaceRef)) and first.startswith('&') else (ValRef(inner) if first.startswith('&') else inner)
        return ex.call_function_multi(target.fn, [a0] + spread, guard, st)
    raise Unsupported("Fn::call on %r" % (inner,))


def m_enumset_new(ex, m, argv, guard, st, callee):
    return guard, bv(0, ex.abstract_types.get('EnumSet', 8))


def m_enumset_from(ex, m, argv, guard, st, callee):
    w = ex.abstract_types.get('EnumSet', 8)
    return guard, _enum_bit(ex, argv[0], w)


def m_enumset_difference(ex, m, argv, guard, st, callee):
    a, b = deref_any(ex, st, argv[0]), deref_any(ex, st, argv[1])
    return guard, a & ~b


def m_assume_init_mut(ex, m, argv, guard, st, callee):
    return guard, argv[0]


def m_option_is_none_val(ex, m, argv, guard, st, callee):
    o = deref_any(ex, st, argv[0])
    return guard, o.discr == bv(0, 64)


def m_noop_unit(ex, m, argv, guard, st, callee):
    return guard, UNIT


def m_bool_default(ex, m, argv, guard, st, callee):
    return guard, FALSE


def m_maybeuninit_write(ex, m, argv, guard, st, callee):
    ref = argv[0]
    if not isinstance(ref, PlaceRef):
        raise Unsupported("MaybeUninit::write through %s" % type(ref).__name__)
    ex.write_cell(st, ref.cell, ref.path, argv[1])
    if len(ref.path) == 1 and ref.path[0][0] == 'idx' and isinstance(ref.cell[1], str):
        _set_init(ex, st, ref.cell, ref.path[0][1])
    return guard, ref


def m_fmt_opaque(ex, m, argv, guard, st, callee):
    return guard, Opaque('fmt')


_EX = [None]


def register(ex):
    _EX[0] = ex
    A = ex.add_model
    A(r'^(?:std::path::)?Path::new::<str>$', m_path_identity, 'Path::new (path model)')
    A(r'^<&?(?:std::path::)?(?:PathBuf|Path) as (?:std::cmp::)?PartialEq(?:<&?(?:std::path::)?(?:PathBuf|Path)>)?>::(eq|ne)$', m_path_eq, 'Path/PathBuf equality (path model: components)')
    A(r'^(?:std::path::)?Path::parent$', m_path_parent, 'Path::parent (path model)')
    A(r'^(?:std::path::)?Path::join::<&(?:std::path::)?Path>$', m_path_join, 'Path::join (path model)')
    A(r'^(?:std::path::)?Path::ends_with::<.*>$', m_path_ends_with, 'Path::ends_with (path model: component suffix)')
    A(r'^(?:std::path::)?Path::starts_with::<.*>$', m_path_starts_with, 'Path::starts_with (path model: component prefix)')
    A(r'^<(?:std::path::)?PathBuf as (?:std::ops::)?Deref>::deref$', m_path_identity, 'PathBuf::deref (path model)')
    A(r'^<(?:std::slice::)?Iter<.*> as (?:std::iter::)?Iterator>::position::<\{closure@.*$', m_iter_position, 'slice::Iter::position with a pure predicate')
    A(r'^(?:std::option::)?Option::<.*>::or_else::<.*$', m_option_or_else, 'Option::or_else')
    A(r'^(?:std::collections::)?HashMap::<u32, \(.*\)>::new$', m_hmap_new, 'HashMap<u32, V>::new (fixed slots)')
    A(r'^<(?:std::collections::)?HashMap<u32, \(.*\)> as (?:std::default::)?Default>::default$', m_hmap_new, 'HashMap<u32, V>::default (fixed slots)')
    A(r'^(?:std::collections::)?HashMap::<u32, \(.*\)>::(get|contains_key)::<u32>$', m_hmap_get, 'HashMap<u32, V>::get/contains_key (fixed slots)')
    A(r'^(?:std::collections::)?HashMap::<u32, [\w:]+>::(get|contains_key)::<u32>$', m_hmap_get, 'HashMap<u32, Struct>::get/contains_key (fixed slots)')
    A(r'^<(?:std::slice::)?Iter<.*> as (?:std::iter::)?Iterator>::zip::<(?:std::slice::)?Iter<.*>>$', m_iter_zip, 'slice::Iter::zip(slice::Iter)')
    A(r'^<(?:std::iter::)?Zip<(?:std::slice::)?Iter<.*>, (?:std::slice::)?Iter<.*>> as (?:std::iter::)?IntoIterator>::into_iter$', m_identity_iter, 'IntoIterator for Zip (identity)')
    A(r'^<(?:std::iter::)?Zip<(?:std::slice::)?Iter<.*>, (?:std::slice::)?Iter<.*>> as (?:std::iter::)?Iterator>::next$', m_zip_next, 'Zip<slice::Iter, slice::Iter>::next')
    A(r'^(?:std::collections::)?HashMap::<u32, \(.*\)>::insert$', m_hmap_insert, 'HashMap<u32, V>::insert (fixed slots, overflow is a bound obligation)')
    A(r'^(?:std::collections::)?HashSet::<u32>::new$', m_hashset_new, 'HashSet<u32>::new (bit set)')
    A(r'^(?:std::collections::)?HashSet::<u32>::insert$', m_hashset_insert, 'HashSet<u32>::insert (bit set)')
    A(r'^(?:std::collections::)?HashSet::<u32>::contains::<u32>$', m_hashset_contains, 'HashSet<u32>::contains (bit set)')
    A(r'^(?:std::collections::)?HashSet::<u32>::is_empty$', m_hashset_is_empty, 'HashSet<u32>::is_empty (bit set)')
    A(r'^(?:std::collections::)?HashSet::<u32>::len$', m_hashset_len, 'HashSet<u32>::len (bit set)')
    A(r'^(?:std::collections::)?HashSet::<u32>::(clear|remove)(?:::<u32>)?$', m_hashset_update, 'HashSet<u32>::clear/remove (bit set)')
    A(r'^<(?:std::collections::)?HashSet<u32> as (?:std::iter::)?Extend<&?u32>>::(extend)::<&?(?:std::collections::)?HashSet<u32>>$', m_hashset_update, 'HashSet<u32>::extend(set) (bit set)')
    A(r'^(?:std::collections::)?HashSet::<u32>::(is_subset|is_superset|is_disjoint)$', m_hashset_relation, 'HashSet<u32>::is_subset/is_superset/is_disjoint (bit set)')
    A(r'^<(?:std::collections::)?HashSet<u32> as (?:std::default::)?Default>::default$', m_hashset_new, 'HashSet<u32>::default (bit set)')
    A(r'^<&(?:std::collections::)?HashSet<u32> as (?:std::ops::)?(BitOr|BitAnd|Sub|BitXor)(?:<.*>)?>::(?:bitor|bitand|sub|bitxor)$', m_hashset_binop, 'set union/intersection/difference on &HashSet<u32> (bit set)')
    A(r'^core::slice::<impl \[.*\]>::iter_mut$', m_vec_iter_mut, 'slice::iter_mut over a whole Vec')
    A(r'^<&mut (?:std::vec::)?Vec<.*> as (?:std::iter::)?IntoIterator>::into_iter$', m_vec_iter_mut, '<&mut Vec<T>>::into_iter')
    A(r'^<(?:std::slice::)?IterMut<.*> as (?:std::iter::)?Iterator>::next$', m_iter_mut_next, 'slice::IterMut::next (places inside the Vec)')
    A(r'^<(?:std::slice::)?IterMut<.*> as (?:std::iter::)?Iterator>::find::<\{closure@.*$', m_iter_mut_find, 'slice::IterMut::find with a pure predicate (symbolic element place)')
    A(r'^<(?:std::slice::)?IterMut<.*> as (?:std::iter::)?IntoIterator>::into_iter$', m_identity_iter, 'IntoIterator for IterMut (identity)')
    A(r'^<(?:std::iter::)?Filter<(?:std::slice::)?Iter<.*>, \{closure@.*\}> as (?:std::iter::)?Iterator>::map::<.*$', m_filter_map, 'Filter<slice::Iter, p>::map (lazy)')
    A(r'^<(?:std::iter::)?Map<(?:std::iter::)?Filter<(?:std::slice::)?Iter<.*>, \{closure@.*\}>, \{closure@.*\}> as (?:std::iter::)?Iterator>::find::<\{closure@.*$', m_map_filter_find, 'Map<Filter<slice::Iter, p>, f>::find with pure closures')
    A(r'^(?:std::result::)?Result::<.*>::(map_err|map)::<.*$', m_result_map_err, 'Result::map_err / Result::map')
    A(r'^(?:std::option::)?Option::<(?:std::option::)?Option<.*>>::flatten$', m_option_flatten, 'Option<Option<T>>::flatten')
    A(r'^<(?:std::slice::)?Iter<.*> as (?:std::iter::)?Iterator>::skip$', m_iter_skip, 'slice::Iter::skip')
    A(r'^<(?:std::iter::)?Skip<(?:std::slice::)?Iter<.*>> as (?:std::iter::)?Iterator>::flat_map::<.*$', m_iter_flat_map, 'Skip<slice::Iter>::flat_map (lazy)')
    A(r'^<(?:std::slice::)?Iter<.*> as (?:std::iter::)?Iterator>::flat_map::<.*$', m_iter_flat_map, 'slice::Iter::flat_map (lazy)')
    A(r'^<(?:std::iter::)?FlatMap<.*> as (?:std::iter::)?Iterator>::find::<\{closure@.*$', m_flat_map_find, 'FlatMap<slice iterator, slice::Iter, f>::find with a pure predicate')
    A(r'^<(?:std::iter::)?Filter<(?:std::slice::)?Iter<.*>, \{closure@.*\}> as (?:std::iter::)?Iterator>::find::<\{closure@.*$', m_filter_find, 'Filter<slice::Iter, p>::find with pure predicates')
    A(r'^<(?:std::ops::)?Range<u(?:8|16|32|64)> as (?:std::iter::)?IntoIterator>::into_iter$', m_identity_iter, 'Range<uN>::into_iter (identity)')
    A(r'^<(?:std::ops::)?Range<u(?:8|16|32|64)> as (?:std::iter::)?Iterator>::next$', m_range_next, 'Range<uN>::next')
    A(r'^(?:std::vec::)?Vec::<.*>::(len|capacity)$', m_vec_len, 'Vec::len/capacity (fixed-slot model)')
    A(r'^(?:std::vec::)?Vec::<.*>::new$', m_vec_new, 'Vec::new (fixed-slot model)')
    A(r'^(?:std::vec::)?Vec::<.*>::pop$', m_vec_pop, 'Vec::pop')
    A(r'^<(?:std::vec::)?Vec<.*> as (?:std::iter::)?IntoIterator>::into_iter$', m_vec_into_iter, 'Vec::into_iter (owned)')
    A(r'^<(?:std::vec::)?IntoIter<.*> as (?:std::iter::)?Iterator>::map::<.*>$', m_owned_map, 'IntoIter::map (lazy)')
    A(r'^<(?:std::iter::)?Map<(?:std::vec::)?IntoIter<.*>, \{closure@.*\}> as (?:std::iter::)?Iterator>::collect::<(?:std::vec::)?Vec<.*>>$', m_map_collect, 'Map<IntoIter, closure>::collect::<Vec> (closure applied in order)')
    A(r'^<(?:std::vec::)?IntoIter<.*> as (?:std::iter::)?Iterator>::rev$', m_into_iter_rev, 'IntoIter::rev')
    A(r'^<(?:std::iter::)?Rev<(?:std::vec::)?IntoIter<.*>> as (?:std::iter::)?Iterator>::map::<.*>$', m_owned_map, 'Rev<IntoIter>::map (lazy)')
    A(r'^<(?:std::iter::)?Map<(?:std::iter::)?Rev<(?:std::vec::)?IntoIter<.*>>, \{closure@.*\}> as (?:std::iter::)?Iterator>::collect::<(?:std::vec::)?Vec<.*>>$', m_map_collect, 'Map<Rev<IntoIter>, closure>::collect::<Vec> (closure applied last to first)')
    A(r'^<(?:std::vec::)?Vec<.*> as (?:std::ops::)?DerefMut>::deref_mut$', m_vec_deref_mut, 'Vec::deref_mut')
    A(r'^core::slice::<impl \[.*\]>::reverse$', m_slice_reverse, 'slice::reverse on a whole Vec')
    A(r'^core::slice::<impl \[.*\]>::last_mut$', m_last_mut, 'slice::last_mut on a whole Vec')
    A(r'^<(?:std::slice::)?Iter<.*> as (?:std::iter::)?Iterator>::find::<\{closure@.*$', m_iter_find, 'slice::Iter::find with a pure predicate')
    A(r'^<(?:std::slice::)?Iter<.*> as (?:std::iter::)?Iterator>::filter::<\{closure@.*$', m_iter_filter, 'slice::Iter::filter (lazy)')
    A(r'^<(?:std::iter::)?Filter<(?:std::slice::)?Iter<.*>, \{closure@.*\}> as (?:std::iter::)?Iterator>::count$', m_filter_count, 'Filter<slice::Iter, closure>::count')
    A(r'^<(?:std::ops::)?Range<usize> as (?:std::iter::)?IntoIterator>::into_iter$', m_identity_iter, 'Range::into_iter (identity)')
    A(r'^<(?:std::ops::)?Range<usize> as (?:std::iter::)?Iterator>::next$', m_range_next, 'Range<usize>::next')
    A(r'^core::slice::<impl \[.*\]>::split_off_first$', m_split_off_first, 'slice::split_off_first')
    A(r'^(?:std::option::)?Option::<&.*>::copied$', m_option_copied, 'Option<&T>::copied')
    A(r'^<(?:std::vec::)?(Vec)<.*> as (?:std::ops::)?Index<(?:std::ops::)?(RangeFrom|RangeTo|Range)<usize>>>::index$', m_vec_index_range, 'Vec::index(range)')
    A(r'^<\[(.*)\] as (?:std::ops::)?Index<(?:std::ops::)?(RangeFrom|RangeTo|Range)<usize>>>::index$', m_vec_index_range, 'slice::index(range)')
    A(r'^<(?:std::vec::)?Vec<.*> as (?:std::ops::)?Index<usize>>::index$', m_vec_index, 'Vec::index(usize)')
    A(r'^core::num::<impl (u(?:16|32|64|128))>::to_le_bytes$', m_to_le_bytes, 'uN::to_le_bytes')
    A(r'^core::num::<impl (u(?:16|32|64|128))>::from_le_bytes$', m_from_le_bytes, 'uN::from_le_bytes')
    A(r'^<(.*) as (?:std::convert::)?Into<(.*)>>::into$', m_into_generic, 'Into::into via the From impl in the dump')
    A(r'^<impl (?:std::ops::)?Fn\(.*\) -> .* as (?:std::ops::)?Fn(?:Mut|Once)?<.*>>::call(?:_mut|_once)?$', m_fn_trait_call, 'call through an `impl Fn` parameter')
    A(r'^(?:enumset::)?EnumSet::<.*>::(?:new|empty)$', m_enumset_new, 'EnumSet::new')
    A(r'^<(?:enumset::)?EnumSet<.*> as (?:std::convert::)?From<.*>>::from$', m_enumset_from, 'EnumSet::from(flag)')
    A(r'^(?:enumset::)?EnumSet::<.*>::difference$', m_enumset_difference, 'EnumSet::difference')
    A(r'^(?:std::mem::)?MaybeUninit::<.*>::assume_init_mut$', m_assume_init_mut, 'MaybeUninit::assume_init_mut')
    A(r'^<(?:std::boxed::)?Box<.*> as (?:std::ops::)?Drop>::drop$', m_noop_unit, 'Box drop (no-op)')
    A(r'^<bool as (?:std::default::)?Default>::default$', m_bool_default, 'bool::default')
    A(r'^(?:std::vec::)?Vec::<.*>::with_capacity$', m_hvec_with_capacity, 'Vec::with_capacity (heap model with initialisation flags)')
    A(r'^(?:std::vec::)?Vec::<.*>::spare_capacity_mut$', m_hvec_spare, 'Vec::spare_capacity_mut')
    A(r'^(?:std::vec::)?Vec::<.*>::set_len$', m_hvec_set_len, 'Vec::set_len (obligations: within capacity, every exposed slot written)')
    A(r'^(?:std::vec::)?Vec::<.*>::shrink_to_fit$', m_hvec_shrink, 'Vec::shrink_to_fit (no-op)')
    A(r'^<str as (?:std::string::)?ToString>::to_string$', lambda ex, m, a, g, s, c: (g, Opaque('String')), 'str::to_string (opaque)')
    A(r'^(?:enumset::)?EnumSet::<.*>::(remove|insert)$', m_enumset_remove, 'EnumSet::remove/insert (bit set)')
    A(r'^(?:enumset::)?EnumSet::<.*>::contains$', m_enumset_contains, 'EnumSet::contains (bit set)')
    A(r'^(?:enumset::)?EnumSet::<.*>::is_empty$', m_enumset_is_empty, 'EnumSet::is_empty (bit set)')
    A(r'^<(?:std::slice::)?Iter<.*> as (?:std::iter::)?IntoIterator>::into_iter$', m_identity_iter, 'IntoIterator for an iterator (identity)')
    A(r'^<(?:std::vec::)?Vec<.*> as (?:std::ops::)?Deref>::deref$', m_vec_deref, 'Vec::deref (slice over the fixed-slot model)')
    A(r'^(?:std::vec::)?Vec::<.*>::as_slice$', m_vec_deref, 'Vec::as_slice')
    A(r'^(?:std::vec::)?Vec::<.*>::is_empty$', m_vec_is_empty, 'Vec::is_empty')
    A(r'^(?:std::vec::)?Vec::<.*>::push$', m_vec_push, 'Vec::push (fixed-slot model, growth beyond the slots is a bound obligation)')
    A(r'^(?:std::mem::)?MaybeUninit::<.*>::write$', m_maybeuninit_write, 'MaybeUninit::write')
    A(r'^(?:core::fmt::rt::Argument::<.*>::new_\w+(?:::<.*>)?|(?:std::fmt::|core::fmt::)?Arguments::<.*>::(?:new|new_const|new_v1|from_str)\b.*)$', m_fmt_opaque, 'fmt::Arguments construction (opaque; only feeds panic messages)')
    A(r'^<(.*) as (?:std::cmp::)?PartialEq(?:<.*>)?>::(eq|ne)$', m_partial_eq, 'PartialEq::eq/ne (structural for primitives and derived impls)')
    A(r'^<(.*) as (?:std::clone::)?Clone>::clone$', m_clone, 'Clone::clone (identity for primitives and derived impls)')
    A(r'^<(?:std::boxed::)?Box<.*> as (?:std::convert::)?AsRef<.*>>::as_ref$', m_box_as_ref, 'Box::as_ref')
    A(r'^(?:std::boxed::)?Box::<.*>::new$', m_box_new, 'Box::new')
    A(r'^<(\{closure@[^}]*\}) as (?:std::ops::)?Fn(?:Mut|Once)?<.*>>::call(?:_mut|_once)?$', m_closure_call, 'closure call (inlined body)')
    A(r'^(?:std::option::)?Option::<.*>::map_or::<.*>$', m_option_map_or, 'Option::map_or')
    A(r'^(?:std::option::)?Option::<.*>::take$', m_option_take, 'Option::take')
    A(r'^core::slice::<impl \[.*\]>::split_first$', m_split_first, 'slice::split_first')
    A(r'^<&(?:std::vec::)?Vec<.*> as (?:std::iter::)?IntoIterator>::into_iter$', m_ref_vec_into_iter, '<&Vec<T>>::into_iter')
    A(r'^<&\[.*\] as (?:std::iter::)?IntoIterator>::into_iter$', m_into_iter_slice, '<&[T]>::into_iter')
    A(r'^(?:std::option::)?Option::<.*>::transpose$', m_option_transpose, 'Option::transpose')
    A(r'^(?:std::option::)?Option::<.*>::map::<.*>$', m_option_map, 'Option::map')
    A(r'^core::slice::<impl \[.*\]>::(get|first|last)(?:::<usize>)?$', m_slice_get, 'slice get/first/last')
    A(r'^(?:std::)?char::methods::<impl char>::to_digit$', m_char_to_digit, 'char::to_digit (constant radix)')
    A(r'^(?:std::option::)?Option::<.*>::(is_some|is_none)$', m_option_is, 'Option::is_some/is_none')
    A(r'^(?:std::option::)?Option::<.*>::(unwrap|expect)$', m_option_unwrap, 'Option::unwrap/expect')
    A(r'^(?:std::option::)?Option::<.*>::unwrap_or$', m_option_unwrap_or, 'Option::unwrap_or')
    A(r'^(?:std::option::)?Option::<.*>::and_then::<.*>$', m_option_and_then, 'Option::and_then')
    A(r'^(?:std::result::)?Result::<.*>::(unwrap|expect)$', m_result_unwrap, 'Result::unwrap/expect')
    A(r'^(?:core::panicking::|std::rt::)?(?:panic|panic_fmt|panic_explicit|begin_panic|unreachable_display|panic_nounwind|assert_failed|panic_const::\w+)\b.*$', m_panic, 'panic!/unreachable!/assert! failure')
    A(r'^core::panicking::.*$', m_panic, 'panic!/unreachable!/assert! failure')
    A(r'^<([iu](?:8|16|32|64|128|size)) as (?:std::convert::)?From<([iu](?:8|16|32|64|128|size)|bool)>>::from$', m_from_int, 'integer From (widening)')
    A(r'^(?:std::result::)?Result::<.*>::(is_ok|is_err)$', m_result_is, 'Result::is_ok/is_err')
    A(r'^<&(?:bool|[iu](?:8|16|32|64|128|size)) as (?:std::ops::)?Not>::not$', m_ref_not, 'Not::not through a reference')
    A(r'^core::num::<impl (u(?:8|16|32|64|128|size))>::next_power_of_two$', m_next_power_of_two, 'uN::next_power_of_two')
    A(r'^core::num::<impl ([iu](?:8|16|32|64|128|size))>::checked_(add|sub|mul)$', m_checked, 'checked_add/sub/mul')
    A(r'^core::num::<impl ([iu](?:8|16|32|64|128|size))>::wrapping_(add|sub|mul)$', m_wrapping, 'wrapping_add/sub/mul')
    A(r'^core::num::<impl ([iu](?:8|16|32|64|128|size))>::overflowing_(add|sub|mul)$', m_overflowing, 'overflowing_add/sub/mul')
    A(r'^core::num::<impl ([iu](?:8|16|32|64|128|size))>::saturating_(add|sub|mul)$', m_saturating, 'saturating_add/sub/mul')
    A(r'^core::num::<impl ([iu](?:8|16|32|64|128|size))>::(count_ones|leading_zeros|trailing_zeros|is_power_of_two|abs|unsigned_abs)$', m_bits, 'integer bit/abs helpers')
    A(r'^<([iu](?:8|16|32|64|128|size)) as (?:std::cmp::)?Ord>::(max|min)$', m_int_minmax_method, 'Ord::max/min on integers')
    A(r'^(?:core::num::<impl (u8)>|(?:std::)?char::methods::<impl (?:char)>)::(is_ascii\w*|to_ascii_lowercase|to_ascii_uppercase|eq_ignore_ascii_case)$', m_ascii_pred, 'u8/char ASCII predicates and case mapping')
    A(r'^(?:std|core)::cmp::(?:max|min)::<(.*)>$', lambda ex, m, a, g, s, c: m_minmax(ex, re.match(r'(.*) (max|min)', '%s %s' % (m.group(1), 'max' if '::max::' in c else 'min')), a, g, s, c), 'cmp::max/min on integers')
    A(r'^<\[u8\] as (?:std::ops::)?Index<(?:std::ops::)?Range<usize>>>::index$', m_slice_index_range, '<[u8]>::index(Range)')
    A(r'^core::slice::<impl \[.*\]>::(len|is_empty)$', m_slice_len, 'slice len/is_empty')
    A(r'^<(?:std::ops::)?Range<usize> as (?:std::iter::)?ExactSizeIterator>::len$', m_range_len, 'Range<usize>::len')
    A(r'^(?:std::ops::)?RangeInclusive::<u(?:8|16|32|64|size)>::new$', m_range_incl_new, 'RangeInclusive::new')
    A(r'^(?:std::ops::)?RangeInclusive::<u(?:8|16|32|64|size)>::contains::<.*>$', m_range_incl_contains, 'RangeInclusive::contains (unsigned)')
    A(r'^core::bool::<impl bool>::then_some::<.*>$', m_then_some, 'bool::then_some')
    A(r'^(?:std::)?char::(?:methods::<impl char>::)?from_u32$', m_char_from_u32, 'char::from_u32')
    A(r'^(?:std::)?char::methods::<impl char>::encode_utf8$', m_encode_utf8, 'char::encode_utf8 (length exact, bytes unconstrained)')
    A(r'^core::slice::<impl \[.*\]>::iter$', m_slice_iter, 'slice::iter')
    A(r'^<.*as (?:std::iter::)?Iterator>::(copied|enumerate|peekable)(?:::<.*>)?$', m_iter_adapt, 'Iterator::copied/enumerate/peekable over a slice')
    A(r'^<(?:std::iter::)?Peekable<.*Iter<.*u8>.*> as (?:std::iter::)?Iterator>::next$', m_iter_next, 'Peekable<..slice::Iter<u8>>::next')
    A(r'^<(?:std::slice::)?Iter<.*> as (?:std::iter::)?Iterator>::next$', m_iter_next, 'slice::Iter<T>::next')
    A(r'^(?:std::iter::)?Peekable::<.*Iter<.*u8>.*>::peek$', m_iter_peek, 'Peekable::peek')
    A(r'^(?:std::iter::)?Peekable::<.*Iter<.*u8>.*>::next_if::<.*>$', m_iter_next_if, 'Peekable::next_if')
    A(r'^<(?:std::slice::)?Iter<.*> as (?:std::iter::)?Iterator>::any::<\{closure@.*$', m_iter_any, 'slice::Iter::any with a pure closure')
    A(r'^<(Result|Option)<.*> as (?:std::ops::)?Try>::branch$', m_try_branch, 'Try::branch')
    A(r'^<((?:std::result::)?Result|(?:std::option::)?Option)(<.*>) as (?:std::ops::)?FromResidual<.*>>::from_residual$',
      lambda ex, m, a, g, s, c: m_from_residual(ex, re.match(r'(\w+)(.*)$', strip_paths(m.group(1)) + m.group(2)), a, g, s, c), 'FromResidual::from_residual (no error conversion)')
    A(r'^<&\[u8\] as (?:std::iter::)?IntoIterator>::into_iter$', m_into_iter_slice, '<&[u8]>::into_iter')
    A(r'^core::str::<impl str>::as_bytes$', m_str_as_bytes, 'str::as_bytes')
