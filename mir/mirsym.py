"""Bounded symbolic executor for rustc MIR, producing z3 terms.

Inputs become symbolic z3 variables, every MIR statement of the functions under
check is interpreted over structured symbolic values, control flow is merged at
join points (ite), loops are unrolled to a stated bound with an "unwinding"
obligation, calls into the dump are inlined, and a small set of std functions
is modelled by hand (mirmodels.py; every model used is reported in the
evidence).  Panics (assert terminators, modelled unwrap/expect/index failures,
`unreachable`) are collected as obligations: (kind, guard, message).

Everything that is not understood raises Unsupported: an encoding is never
produced from a statement that was skipped.
"""
import os
import re
import collections
import z3

from mirparse import (MirDump, parsed_block, split_top, find_top, match_paren, norm_type,
                      strip_paths, MirSyntaxError)
from rustdefs import RustDefs, EnumDef, StructDef


class Unsupported(Exception):
    pass


class PathAbort(Exception):
    """The current path cannot continue (bound reached); recorded as an obligation."""

    def __init__(self, kind, msg):
        self.kind, self.msg = kind, msg


INT_W = {'u8': 8, 'i8': 8, 'u16': 16, 'i16': 16, 'u32': 32, 'i32': 32, 'u64': 64, 'i64': 64,
         'u128': 128, 'i128': 128, 'usize': 64, 'isize': 64, 'char': 32}


def int_info(t):
    t = t.strip()
    if t in INT_W:
        return INT_W[t], t.startswith('i')
    return None


# --------------------------------------------------------------------------- values
class Unit:
    def __repr__(self):
        return '()'


UNIT = Unit()


class Agg:
    __slots__ = ('fields', 'tag')

    def __init__(self, fields, tag=None):
        self.fields = tuple(fields)
        self.tag = tag

    def __repr__(self):
        return 'Agg%s%r' % (self.tag or '', self.fields)


class EnumV:
    __slots__ = ('edef', 'discr', 'variants', 'targs')

    def __init__(self, edef, discr, variants, targs=None):
        self.edef, self.discr, self.variants, self.targs = edef, discr, variants, targs or {}

    def __repr__(self):
        return 'Enum(%s, %s, %s)' % (self.edef.name if self.edef else '?', self.discr, list(self.variants))


class BoxV:
    __slots__ = ('content',)

    def __init__(self, content):
        self.content = content      # None = beyond the materialised depth


class BoxPtr:
    __slots__ = ('content',)

    def __init__(self, content):
        self.content = content


class ValRef:
    __slots__ = ('val',)

    def __init__(self, val):
        self.val = val

    def __repr__(self):
        return '&%r' % (self.val,)


class PlaceRef:
    __slots__ = ('cell', 'path')

    def __init__(self, cell, path=()):
        self.cell, self.path = cell, tuple(path)

    def __repr__(self):
        return '&mut %r%r' % (self.cell, self.path)


class SliceRef:
    """A shared slice: elements backing[start .. start+length]."""
    __slots__ = ('backing', 'start', 'length')

    def __init__(self, backing, start, length):
        self.backing, self.start, self.length = tuple(backing), start, length

    def __repr__(self):
        return 'Slice(n=%d, start=%s, len=%s)' % (len(self.backing), self.start, self.length)


class MutSliceRef:
    """A `&mut [T]` covering the whole array stored at (cell, path)."""
    __slots__ = ('cell', 'path', 'length')

    def __init__(self, cell, path, length):
        self.cell, self.path, self.length = cell, tuple(path), length

    def __repr__(self):
        return '&mut [..](%r%r, len=%s)' % (self.cell, self.path, self.length)


class Opaque:
    __slots__ = ('tag',)

    def __init__(self, tag):
        self.tag = tag

    def __repr__(self):
        return 'Opaque(%s)' % self.tag


class FnItem:
    __slots__ = ('text',)

    def __init__(self, text):
        self.text = text


class Model:
    """A modelled std object (iterator, ...): named kind, dict of fields."""
    __slots__ = ('kind', 'f')

    def __init__(self, kind, **f):
        self.kind, self.f = kind, f

    def __repr__(self):
        return 'Model(%s, %r)' % (self.kind, self.f)


def bv(v, w):
    return z3.BitVecVal(v, w)


SIMPLIFY_STEPS = 20000


def quick_const(e, depth=4):
    """e if it is a bit-vector value, its folded value if it is a shallow term over values, else None.
    (Used where a full simplify of a large symbolic term would be wasted work.)"""
    if z3.is_bv_value(e):
        return e
    if depth == 0 or not z3.is_app(e) or e.num_args() == 0 or e.num_args() > 3:
        return None
    for i in range(e.num_args()):
        if quick_const(e.arg(i), depth - 1) is None:
            return None
    r = z3.simplify(e)
    return r if z3.is_bv_value(r) else None


def zsimp(e):
    """z3.simplify with a step budget: on large ite-DAGs the rewriter can take exponential time;
    an incompletely simplified term is still an equivalent term."""
    try:
        return z3.simplify(e, max_steps=SIMPLIFY_STEPS)
    except z3.Z3Exception:
        return e


def is_z3(v):
    return isinstance(v, z3.ExprRef)


def same(a, b):
    if a is b:
        return True
    if is_z3(a) and is_z3(b):
        return a.eq(b)
    return False


def zand(*xs):
    xs = [x for x in xs if not z3.is_true(x)]
    if any(z3.is_false(x) for x in xs):
        return z3.BoolVal(False)
    if not xs:
        return z3.BoolVal(True)
    if len(xs) == 1:
        return xs[0]
    return z3.And(*xs)


def zor(*xs):
    xs = [x for x in xs if not z3.is_false(x)]
    if any(z3.is_true(x) for x in xs):
        return z3.BoolVal(True)
    if not xs:
        return z3.BoolVal(False)
    if len(xs) == 1:
        return xs[0]
    return z3.Or(*xs)


def znot(x):
    if z3.is_true(x):
        return z3.BoolVal(False)
    if z3.is_false(x):
        return z3.BoolVal(True)
    if z3.is_not(x):
        return x.arg(0)
    return z3.Not(x)


def zite(g, a, b):
    if z3.is_true(g):
        return a
    if z3.is_false(g):
        return b
    if a.eq(b):
        return a
    return z3.If(g, a, b)


_MERGED_TAGS = {}


def over_const_leaves(term, f, limit=16):
    """If `term` is an if-then-else tree whose leaves are bit-vector constants (at most `limit` of them), return the same
    tree with f(leaf) at the leaves (arithmetic by a symbolic operand that only takes a few constant values - an alignment,
    a size class - becomes arithmetic by constants, which bit-blasts far better); otherwise None."""
    t = zsimp(term) if is_z3(term) else term
    if not is_z3(t) or not z3.is_bv(t) or z3.is_bv_value(t):
        return None
    count = [0]

    def ok(x):
        if z3.is_bv_value(x):
            count[0] += 1
            return count[0] <= limit
        return z3.is_app_of(x, z3.Z3_OP_ITE) and ok(x.arg(1)) and ok(x.arg(2))
    if not ok(t):
        return None
    memo = {}

    def go(x):
        k = x.get_id()
        if k not in memo:
            memo[k] = f(x) if z3.is_bv_value(x) else z3.If(x.arg(0), go(x.arg(1)), go(x.arg(2)))
        return memo[k]
    return go(t)



def ite_val(g, a, b, memo=None):
    """Structured if-then-else (memoised on object identity so that shared sub-values stay shared)."""
    if same(a, b):
        return a
    if a is None:
        return b
    if b is None:
        return a
    if is_z3(a) or isinstance(a, Unit):
        return _ite_val(g, a, b, memo)
    if memo is None:
        memo = {}
    key = (id(a), id(b))
    r = memo.get(key)
    if r is None:
        r = _ite_val(g, a, b, memo)
        memo[key] = (r, a, b)
        return r
    return r[0]


def _ite_val(g, a, b, memo):
    if same(a, b):
        return a
    if a is None:
        return b
    if b is None:
        return a
    if is_z3(a) and is_z3(b):
        if a.sort() != b.sort():
            raise Unsupported("merge of different sorts %s / %s" % (a.sort(), b.sort()))
        return zite(g, a, b)
    if isinstance(a, Unit) and isinstance(b, Unit):
        return a
    if isinstance(a, Agg) and isinstance(b, Agg) and len(a.fields) == len(b.fields):
        return Agg([ite_val(g, x, y, memo) for x, y in zip(a.fields, b.fields)], a.tag)
    if isinstance(a, Agg) and isinstance(b, Agg) and a.tag == 'vecitems' and b.tag == 'vecitems':
        n = max(len(a.fields), len(b.fields))
        fa = list(a.fields) + [None] * (n - len(a.fields))
        fb = list(b.fields) + [None] * (n - len(b.fields))
        return Agg([ite_val(g, x, y, memo) for x, y in zip(fa, fb)], 'vecitems')
    if isinstance(a, EnumV) and isinstance(b, EnumV):
        vs = {}
        for k in set(a.variants) | set(b.variants):
            fa, fb = a.variants.get(k), b.variants.get(k)
            if fa is None:
                vs[k] = fb
            elif fb is None:
                vs[k] = fa
            else:
                vs[k] = tuple(ite_val(g, x, y, memo) for x, y in zip(fa, fb))
        return EnumV(a.edef or b.edef, zite(g, a.discr, b.discr), vs, a.targs or b.targs)
    if isinstance(a, BoxV) and isinstance(b, BoxV):
        return BoxV(ite_val(g, a.content, b.content, memo))
    if isinstance(a, BoxPtr) and isinstance(b, BoxPtr):
        return BoxPtr(ite_val(g, a.content, b.content, memo))
    if isinstance(a, ValRef) and isinstance(b, ValRef):
        return ValRef(ite_val(g, a.val, b.val, memo))
    if isinstance(a, PlaceRef) and isinstance(b, PlaceRef):
        if a.cell == b.cell and a.path == b.path:
            return a
        # references to two elements of the same fixed-slot Vec: one reference with a symbolic element index
        if (a.cell == b.cell and len(a.path) == len(b.path) and a.path and a.path[:-1] == b.path[:-1]
                and a.path[-1][0] in ('vecitem', 'vecsel') and b.path[-1][0] in ('vecitem', 'vecsel')):
            ia = a.path[-1][1] if a.path[-1][0] == 'vecsel' else bv(a.path[-1][1], 64)
            ib = b.path[-1][1] if b.path[-1][0] == 'vecsel' else bv(b.path[-1][1], 64)
            return PlaceRef(a.cell, a.path[:-1] + (('vecsel', zite(g, ia, ib)),))
        raise Unsupported("merge of distinct mutable references %r / %r" % (a, b))
    if isinstance(a, MutSliceRef) and isinstance(b, MutSliceRef):
        if a.cell == b.cell and a.path == b.path:
            return MutSliceRef(a.cell, a.path, zite(g, a.length, b.length))
        raise Unsupported("merge of distinct mutable slices")
    if isinstance(a, SliceRef) and isinstance(b, SliceRef):
        if len(a.backing) == len(b.backing) and all(same(x, y) for x, y in zip(a.backing, b.backing)):
            return SliceRef(a.backing, zite(g, a.start, b.start), zite(g, a.length, b.length))
        # different backing stores: rebase both onto a concatenation
        back = a.backing + b.backing
        off = bv(len(a.backing), 64)
        return SliceRef(back, zite(g, a.start, b.start + off), zite(g, a.length, b.length))
    if isinstance(a, Opaque) and isinstance(b, Opaque):
        if a.tag == b.tag:
            return a
        # a merged opaque value is a new opaque value named after the pair; names are interned so that nested merges do
        # not build exponentially long tags
        k = (a.tag, b.tag)
        t = _MERGED_TAGS.get(k)
        if t is None:
            t = _MERGED_TAGS[k] = 'merge#%d' % len(_MERGED_TAGS)
        return Opaque(t)
    if isinstance(a, Model) and isinstance(b, Model) and a.kind == b.kind:
        out = {}
        for k in set(a.f) | set(b.f):
            x, y = a.f.get(k), b.f.get(k)
            if isinstance(x, (bool, tuple, str)) or isinstance(y, (bool, tuple, str)) or x is None or y is None:
                xv = x if x is not None else (False if isinstance(y, bool) else y)
                yv = y if y is not None else (False if isinstance(x, bool) else x)
                if xv != yv:
                    raise Unsupported("merge of %s models that differ in %s" % (a.kind, k))
                out[k] = xv
            else:
                out[k] = ite_val(g, x, y, memo)
        return Model(a.kind, **out)
    if isinstance(a, FnItem) and isinstance(b, FnItem) and a.text == b.text:
        return a
    raise Unsupported("cannot merge %r with %r" % (type(a).__name__, type(b).__name__))


# --------------------------------------------------------------------------- types
def deref_type(t):
    t = t.strip()
    for p in ('&mut ', '&', '*const ', '*mut '):
        if t.startswith(p):
            return t[len(p):].strip()
    m = re.match(r'(?:[A-Za-z_:]*::)?Box<(.*)>$', t)
    if m:
        return split_top(m.group(1))[0]
    m = re.match(r'(?:[A-Za-z_:]*::)?(?:Unique|NonNull)<(.*)>$', t)
    if m:
        return m.group(1)
    raise Unsupported("deref of type %r" % t)


def elem_type(t):
    t = t.strip()
    if t.startswith('[') and t.endswith(']'):
        inner = t[1:-1]
        k = find_top(inner, ';')
        return (inner if k < 0 else inner[:k]).strip()
    raise Unsupported("element of type %r" % t)


def generic_args(t):
    k = find_top(t, '<')
    if k < 0 or not t.endswith('>'):
        return []
    return split_top(t[k + 1:-1])


def base_name(t):
    k = find_top(t, '<')
    return (t if k < 0 else t[:k]).replace('::<', '<').rstrip(':')


def subst(t, env):
    if not env:
        return t
    return re.sub(r'\b([A-Z][A-Za-z0-9_]*)\b', lambda m: env.get(m.group(1), m.group(1)), t)


# --------------------------------------------------------------------------- CFG analysis
class CFG:
    def __init__(self, fn):
        self.fn = fn
        self.succ = {}
        for bb in fn.blocks:
            stmts = parsed_block(fn, bb)
            t = stmts[-1] if stmts else ('unreachable',)
            k = t[0]
            if k == 'goto':
                s = [t[1]]
            elif k == 'switch':
                s = [b for _, b in t[2]] + ([t[3]] if t[3] is not None else [])
            elif k == 'call':
                s = [t[4]] if t[4] is not None else []
            elif k == 'drop':
                s = [t[2]] if t[2] is not None else []
            elif k == 'assert':
                s = [t[4]]
            else:
                s = []
            self.succ[bb] = list(dict.fromkeys(s))
        self._liveness(fn)
        # iterative DFS for RPO and back edges
        self.rpo = []
        color = {}
        self.back = set()
        stack = [(0, iter(self.succ[0]))]
        color[0] = 1
        while stack:
            b, it = stack[-1]
            adv = False
            for s in it:
                c = color.get(s, 0)
                if c == 0:
                    color[s] = 1
                    stack.append((s, iter(self.succ[s])))
                    adv = True
                    break
                elif c == 1:
                    self.back.add((b, s))
            if not adv:
                color[b] = 2
                self.rpo.append(b)
                stack.pop()
        self.rpo.reverse()
        self.rpo_index = {b: i for i, b in enumerate(self.rpo)}
        pred = collections.defaultdict(list)
        for b in self.rpo:
            for s in self.succ[b]:
                pred[s].append(b)
        # natural loops
        self.loops = {}
        for (u, h) in self.back:
            body = self.loops.setdefault(h, {h})
            work = [u]
            while work:
                x = work.pop()
                if x in body or x not in self.rpo_index:
                    continue
                body.add(x)
                work.extend(pred[x])
        # innermost loop per block; parent per loop
        self.inner = {}
        for h in sorted(self.loops, key=lambda h: -len(self.loops[h])):
            for b in self.loops[h]:
                self.inner[b] = h
        self.parent = {}
        for h in self.loops:
            best = None
            for h2 in self.loops:
                if h2 != h and h in self.loops[h2]:
                    if best is None or len(self.loops[h2]) < len(self.loops[best]):
                        best = h2
            self.parent[h] = best


def _place_root(p):
    while p[0] != 'local':
        p = p[1]
    return p[1]


def _place_locals(p, acc):
    """All locals mentioned by a place (root and dynamic indices)."""
    while p[0] != 'local':
        if p[0] == 'index':
            acc.add(p[2])
        p = p[1]
    acc.add(p[1])


def _operand_uses(op, acc):
    if op[0] in ('copy', 'move'):
        _place_locals(op[1], acc)


def _rvalue_uses(rv, uses, addr):
    k = rv[0]
    if k == 'use':
        _operand_uses(rv[1], uses)
    elif k in ('ref', 'rawptr'):
        _place_locals(rv[2], uses)
        addr.add(_place_root(rv[2]))
    elif k == 'cast':
        _operand_uses(rv[1], uses)
    elif k == 'binop':
        _operand_uses(rv[2], uses)
        _operand_uses(rv[3], uses)
    elif k == 'unop':
        _operand_uses(rv[2], uses)
    elif k in ('discriminant', 'len'):
        _place_locals(rv[1], uses)
    elif k in ('tuple', 'array'):
        for o in rv[1]:
            _operand_uses(o, uses)
    elif k == 'repeat':
        _operand_uses(rv[1], uses)
    elif k in ('adt', 'closure'):
        for _, o in rv[2]:
            _operand_uses(o, uses)


def _cfg_liveness(self, fn):
    """Backward liveness of locals; address-taken locals are treated as always live."""
    use, deff = {}, {}
    addr = set()
    for bb in fn.blocks:
        u, d = set(), set()
        for st in parsed_block(fn, bb):
            su, sd = set(), set()
            k = st[0]
            if k == 'assign':
                _rvalue_uses(st[2], su, addr)
                if st[1][0] == 'local':
                    sd.add(st[1][1])
                else:
                    _place_locals(st[1], su)
            elif k == 'switch':
                _operand_uses(st[1], su)
            elif k == 'call':
                for o in st[3]:
                    _operand_uses(o, su)
                if st[1] is not None:
                    if st[1][0] == 'local':
                        sd.add(st[1][1])
                    else:
                        _place_locals(st[1], su)
            elif k == 'drop':
                _place_locals(st[1], su)
            elif k == 'assert':
                _operand_uses(st[1], su)
            elif k == 'setdiscr':
                _place_locals(st[1], su)
            elif k == 'return':
                su.add(0)
            u |= (su - d)
            d |= sd
        use[bb], deff[bb] = u, d
    live_in = {bb: set(use[bb]) for bb in fn.blocks}
    changed = True
    order = sorted(fn.blocks, reverse=True)
    while changed:
        changed = False
        for bb in order:
            out = set()
            for s_ in self.succ[bb]:
                out |= live_in[s_]
            new = use[bb] | (out - deff[bb])
            if new != live_in[bb]:
                live_in[bb] = new
                changed = True
    self.live_in = live_in
    self.addr_taken = addr


CFG._liveness = _cfg_liveness


class State:
    """mem: cell -> value.  dom: name of a symbolic discriminant variable -> frozenset of values it can
    still take on this path (a cheap abstract domain used to prune switch targets without the solver)."""
    __slots__ = ('mem', 'dom', 'ckey')

    def __init__(self, mem=None, dom=None, ckey=None):
        self.mem = mem if mem is not None else {}
        self.dom = dom if dom is not None else {}
        # ckey: cell -> concrete int.  States are merged only if their ckeys are equal; models use it
        # for cursor-like values (iterator positions) that must stay concrete to keep terms small.
        self.ckey = ckey if ckey is not None else {}

    def copy(self):
        return State(dict(self.mem), dict(self.dom), dict(self.ckey))

    def key(self):
        return tuple(sorted(self.ckey.items())) if self.ckey else ()


def merge_states(items):
    """items: [(guard, State)] -> (guard, State)."""
    if len(items) == 1:
        return items[0]
    g_total = zor(*[g for g, _ in items])
    keys = set()
    for _, st in items:
        keys.update(st.mem)
    out = {}
    for k in keys:
        acc = None
        first = True
        for g, st in reversed(items):
            v = st.mem.get(k)
            if v is None:
                continue
            if first:
                acc = v
                first = False
            else:
                acc = ite_val(g, v, acc)
        out[k] = acc
    dom = {}
    first = items[0][1].dom
    for name, d in first.items():
        u = d
        for _, st in items[1:]:
            d2 = st.dom.get(name)
            if d2 is None:
                u = None
                break
            u = u | d2
        if u is not None:
            dom[name] = u
    return g_total, State(out, dom, dict(items[0][1].ckey))


class Executor:
    def __init__(self, dump, defs, loop_bound=8, call_depth=40, timeout_ms=60000):
        self.dump, self.defs = dump, defs
        self.loop_bound = loop_bound
        self.loop_bounds = {}          # (fn name, header bb) -> bound
        self.prune_switch = False      # solver-based pruning of switch targets (slow; off)
        self.base_dom = {}
        self.memo_pure = True
        self.abstract_types = {}       # type base name -> bit width: values of that type are opaque tokens with equality only
        self.havoc_log = []
        self.vec_new_slots = 4         # slots of a Vec::new() in the fixed-slot model
        self.vec_input_slots = 0       # > 0: symbolic Vec<T> inputs get this many element slots and a symbolic length
        self.havoc_patterns = []       # regexes of callees whose result is an unconstrained value of the destination type
        self.var_bounds = {}           # name of a bit-vector variable -> (lo, hi) known from the harness precondition
        self.key_cursors = True        # never merge states that disagree on a concrete usize local
        self.solver_pruning = False    # ask the solver whether a guard is satisfiable before exploring (slow)
        self.use_liveness = True
        self.pure_cache = {}
        self.call_depth = call_depth
        self.obligations = []          # (kind, guard, msg)
        self.assumptions = []
        self.solver = z3.Solver()
        self.solver.set('timeout', timeout_ms)
        self.frame_serial = 0
        self.fresh_n = 0
        self.cfgs = {}
        self.stack = []
        self.used_models = collections.Counter()
        self.inlined = collections.Counter()
        self.stats = collections.Counter()
        self.models = []
        self.impl_index = None
        import mirmodels
        mirmodels.register(self)

    # ------------------------------------------------------------------ util
    def fresh(self, prefix, sort):
        self.fresh_n += 1
        return z3.Const('%s!%d' % (prefix, self.fresh_n), sort)

    def assume(self, c):
        self.assumptions.append(c)
        self.solver.add(c)

    def oblige(self, kind, guard, msg):
        if z3.is_false(guard):
            return
        self.obligations.append((kind, guard, msg))

    def feasible(self, guard):
        if z3.is_false(guard):
            return False
        if z3.is_true(guard):
            return True
        g = zsimp(guard)
        if z3.is_false(g):
            return False
        if z3.is_true(g):
            return True
        if not self.solver_pruning:
            return True
        self.stats['feasibility_queries'] += 1
        self.solver.push()
        self.solver.add(g)
        r = self.solver.check()
        self.solver.pop()
        if r == z3.unknown:
            return True
        return r == z3.sat

    # ------------------------------------------------------------------ symbolic inputs
    def fresh_value(self, ty, name, depth=3, env=None, expand=None):
        """A symbolic value of Rust type ty. `expand`, if given, is a predicate on the type's
        base name: ADTs for which it is false become Opaque (their fields are never read)."""
        ty = subst(norm_type(ty), env)
        ii = int_info(ty)
        if ii:
            return z3.BitVec(name, ii[0])
        if ty == 'bool':
            return z3.Bool(name)
        if ty == '()':
            return UNIT
        if ty.startswith('&mut '):
            raise Unsupported("fresh &mut")
        if ty.startswith('&'):
            inner = ty[1:].strip()
            return ValRef(self.fresh_value(inner, name, depth, env, expand))
        if ty.startswith('(') and ty.endswith(')'):
            parts = [p for p in split_top(ty[1:-1]) if p]
            return Agg([self.fresh_value(p, '%s.%d' % (name, i), depth, env, expand) for i, p in enumerate(parts)])
        b = strip_paths(base_name(ty))
        if b == 'Vec' and self.vec_input_slots > 0 and (expand is None or expand('Vec')):
            import mirmodels
            k = self.vec_input_slots if depth > 0 else 0
            elem_t = generic_args(ty)[0]
            items = [self.fresh_value(elem_t, '%s[%d]' % (name, i), depth - 1, env, expand) for i in range(k)]
            ln = z3.BitVec(name + '.len', 64)
            self.assume(z3.ULE(ln, bv(k, 64)))
            self.var_bounds[name + '.len'] = (0, k)
            return Model('vec', items=Agg(items + [None], 'vecitems'), len=ln, cap=bv(k, 64))
        if b == 'Box':
            if depth <= 0:
                return BoxV(None)
            return BoxV(self.fresh_value(generic_args(ty)[0], name + '*', depth - 1, env, expand))
        if re.fullmatch(r'[A-Z]', b):
            return z3.BitVec(name, 16)      # generic parameter: an uninterpreted 16-bit token
        if b in self.abstract_types:
            return z3.BitVec(name, self.abstract_types[b])
        if expand is not None and b not in ('Option', 'Result') and not expand(b):
            return Opaque('%s:%s' % (name, ty))
        edef = self.defs.find_enum(base_name(ty))
        if edef is not None:
            targs = dict(zip(edef.generics, generic_args(ty)))
            selfty = ty
            discr = z3.BitVec(name + '#', 64)
            variants = {}
            allowed = []
            # Payload slots are shared between variants: exactly one variant is active, so a field of
            # type T in variant A and one in variant B can be the same symbolic value.  This keeps a
            # depth-d symbolic type linear in d instead of exponential, and loses no concrete value.
            slots = {}
            saved_module = self.defs.prefer_module
            self.defs.prefer_module = edef.module
            for vname, d, fields in edef.variants:
                needs_box = any(re.search(r'\bBox<', ft) for _, ft in fields)
                if needs_box and depth <= 0:
                    continue
                fv = []
                occ = collections.Counter()
                for i, (fname, ft) in enumerate(fields):
                    ft = subst(ft, targs).replace('Self', selfty)
                    ft = self.defs.expand_alias(ft, edef.module)
                    key = (ft, occ[ft])
                    occ[ft] += 1
                    if key not in slots:
                        label = re.sub(r'[^A-Za-z0-9]+', '_', strip_paths(ft)).strip('_')
                        slots[key] = self.fresh_value(ft, '%s.%s%d' % (name, label, key[1]), depth, None, expand)
                    fv.append(slots[key])
                variants[vname] = tuple(fv)
                allowed.append(d)
            self.defs.prefer_module = saved_module
            self.assume(zor(*[discr == bv(d, 64) for d in allowed]))
            self.base_dom[discr.decl().name()] = frozenset(allowed)
            return EnumV(edef, discr, variants, targs)
        sdef = self.defs.find_struct(base_name(ty))
        if sdef is not None and sdef.fields:
            targs = dict(zip(sdef.generics, generic_args(ty)))
            saved_module = self.defs.prefer_module
            self.defs.prefer_module = sdef.module
            try:
                return self._fresh_struct(sdef, targs, name, depth, expand)
            finally:
                self.defs.prefer_module = saved_module
        return Opaque('%s:%s' % (name, ty))

    def _fresh_struct(self, sdef, targs, name, depth, expand):
        if True:
            return Agg([self.fresh_value(self.defs.expand_alias(subst(ft, targs), sdef.module), '%s.%s' % (name, fname or i), depth, None, expand)
                        for i, (fname, ft) in enumerate(sdef.fields)], sdef.name)
        return Opaque('%s:%s' % (name, ty))

    # ------------------------------------------------------------------ places
    def cell(self, frame, n):
        return (frame, n)

    def type_of_place(self, fn, p):
        k = p[0]
        if k == 'local':
            return fn.locals[p[1]]
        if k == 'field':
            return p[3]
        if k == 'deref':
            return deref_type(self.type_of_place(fn, p[1]))
        if k in ('downcast', 'subslice', 'oscast'):
            return self.type_of_place(fn, p[1])
        if k in ('index', 'constindex'):
            return elem_type(self.type_of_place(fn, p[1]))
        raise Unsupported("type of place %r" % (p,))

    def type_of_operand(self, fn, op):
        if op[0] in ('copy', 'move'):
            return self.type_of_place(fn, op[1])
        t = op[1]
        m = re.match(r'^-?\d+_([iu](?:8|16|32|64|128|size))$', t)
        if m:
            return m.group(1)
        if t in ('true', 'false'):
            return 'bool'
        if t.startswith("'"):
            return 'char'
        m = re.match(r'^(?:core::num::<impl )?([iu](?:8|16|32|64|128|size))>?::(MAX|MIN|BITS)$', t)
        if m:
            return 'u32' if m.group(2) == 'BITS' else m.group(1)
        return None

    def read_place(self, st, frame, fn, p):
        k = p[0]
        if k == 'local':
            v = st.mem.get((frame, p[1]))
            if v is None:
                raise Unsupported("read of uninitialised local _%d in %s" % (p[1], fn.name))
            return v
        if k == 'deref':
            return self.deref(st, self.read_place(st, frame, fn, p[1]))
        base = self.read_place(st, frame, fn, p[1])
        return self.project(st, base, p, fn)

    def deref(self, st, r):
        if isinstance(r, ValRef):
            return r.val
        if isinstance(r, PlaceRef):
            return self.read_ref(st, r)
        if isinstance(r, (SliceRef, MutSliceRef)):
            return r
        if isinstance(r, (BoxV, BoxPtr)):
            if r.content is None:
                raise PathAbort('depth', 'dereference below the materialised type depth')
            return r.content
        raise Unsupported("deref of %r" % type(r).__name__)

    def read_ref(self, st, r):
        v = st.mem.get(r.cell)
        if v is None:
            raise Unsupported("dangling reference to %r" % (r.cell,))
        for step in r.path:
            v = self.project_step(st, v, step)
        return v

    def project_step(self, st, base, step):
        k = step[0]
        if k == 'deref':
            return self.deref(st, base)
        if k == 'field':
            return self.project_field(base, step[1])
        if k == 'downcast':
            return self.project_downcast(base, step[1])
        if k == 'idx':
            return self.index_value(base, step[1])
        if k == 'vecitem':
            if isinstance(base, Model) and base.kind == 'vec':
                return base.f['items'].fields[step[1]]
            raise Unsupported("vecitem step into %s" % type(base).__name__)
        if k == 'vecsel':
            # element at a symbolic index of a fixed-slot Vec
            if isinstance(base, Model) and base.kind == 'vec':
                present = [(n, x) for n, x in enumerate(base.f['items'].fields) if x is not None]
                if not present:
                    raise PathAbort('index', 'element of an empty Vec model')
                acc = present[-1][1]
                for n, x in reversed(present[:-1]):
                    acc = ite_val(step[1] == bv(n, 64), x, acc)
                return acc
            raise Unsupported("vecsel step into %s" % type(base).__name__)
        raise Unsupported("projection step %r" % (step,))

    def project(self, st, base, p, fn):
        k = p[0]
        if k == 'field':
            return self.project_field(base, p[2], p[3])
        if k == 'downcast':
            return self.project_downcast(base, p[2])
        if k == 'oscast':
            return base
        if k == 'constindex':
            if p[4]:
                raise Unsupported("index from end")
            return self.index_value(base, bv(p[2], 64))
        if k == 'index':
            # the index local lives in the same frame; caller passes frame through st lookups
            raise Unsupported("dynamic index projection must go through read_place_idx")
        raise Unsupported("projection %r" % (k,))

    def project_field(self, base, idx, ty=None):
        if isinstance(base, DowncastView):
            fields = base.fields
            if idx >= len(fields):
                raise Unsupported("variant field %d out of range" % idx)
            return fields[idx]
        if isinstance(base, Agg):
            if idx >= len(base.fields):
                raise Unsupported("field %d of %r" % (idx, base))
            return base.fields[idx]
        if isinstance(base, BoxV):
            # Box<T>.0 = Unique<T>, .1 = allocator
            if idx == 0:
                return BoxPtr(base.content)
            return UNIT
        if isinstance(base, BoxPtr):
            return base            # Unique<T>.0 = NonNull<T>; NonNull<T>.0 = *const T
        if isinstance(base, Model) and ('f%d' % idx) in base.f:
            return base.f['f%d' % idx]
        raise Unsupported("field %d of %s" % (idx, type(base).__name__))

    def project_downcast(self, base, vname):
        if isinstance(base, EnumV):
            f = base.variants.get(vname)
            if f is None:
                # never constructed on this path: the path is dead or the value is unconstrained
                raise PathAbort('variant', 'downcast to variant %s that was never materialised' % vname)
            return DowncastView(f)
        raise Unsupported("downcast of %s" % type(base).__name__)

    def index_value(self, base, idx):
        """base[idx] with idx a 64-bit term."""
        idx = zsimp(idx) if is_z3(idx) else bv(idx, 64)
        if isinstance(base, SliceRef):
            pos = zsimp(base.start + idx)
            return select(base.backing, pos)
        if isinstance(base, Agg):
            return select(base.fields, idx)
        raise Unsupported("index into %s" % type(base).__name__)

    # resolve a place to (cell, path) for writing / &mut
    def resolve(self, st, frame, fn, p):
        k = p[0]
        if k == 'local':
            return (frame, p[1]), ()
        if k == 'deref':
            inner = p[1]
            r = self.read_place(st, frame, fn, inner)
            if isinstance(r, (PlaceRef, MutSliceRef)):
                return r.cell, r.path
            if isinstance(r, (BoxV, BoxPtr)):
                c, path = self.resolve(st, frame, fn, inner)
                return c, path + (('deref',),)
            raise Unsupported("write through %s in %s" % (type(r).__name__, fn.name))
        c, path = self.resolve(st, frame, fn, p[1])
        if k == 'field':
            return c, path + (('field', p[2]),)
        if k == 'downcast':
            return c, path + (('downcast', p[2]),)
        if k == 'oscast':
            return c, path
        if k == 'constindex':
            if p[4]:
                raise Unsupported("index from end")
            return c, path + (('idx', bv(p[2], 64)),)
        if k == 'index':
            i = st.mem[(frame, p[2])]
            return c, path + (('idx', i),)
        raise Unsupported("resolve %r" % (p,))

    def write_cell(self, st, cell, path, val):
        if not path:
            st.mem[cell] = val
            return
        root = st.mem.get(cell)
        st.mem[cell] = self.update(st, root, path, val)

    def update(self, st, base, path, val):
        if not path:
            return val
        step, rest = path[0], path[1:]
        k = step[0]
        if k == 'field':
            if base is None:
                # first write into an uninitialised aggregate: grow it lazily
                base = Agg([None] * (step[1] + 1))
            if isinstance(base, Agg):
                fs = list(base.fields)
                while len(fs) <= step[1]:
                    fs.append(None)
                fs[step[1]] = self.update(st, fs[step[1]], rest, val)
                return Agg(fs, base.tag)
            if isinstance(base, DowncastView):
                fs = list(base.fields)
                fs[step[1]] = self.update(st, fs[step[1]], rest, val)
                return DowncastView(tuple(fs))
            if isinstance(base, Model) and ('f%d' % step[1]) in base.f:
                f = dict(base.f)
                f['f%d' % step[1]] = self.update(st, f['f%d' % step[1]], rest, val)
                return Model(base.kind, **f)
            raise Unsupported("update field of %s" % type(base).__name__)
        if k == 'downcast':
            if not isinstance(base, EnumV):
                raise Unsupported("update downcast of %s" % type(base).__name__)
            f = base.variants.get(step[1])
            if f is None:
                raise Unsupported("update of unmaterialised variant %s" % step[1])
            nv = self.update(st, DowncastView(f), rest, val)
            vs = dict(base.variants)
            vs[step[1]] = nv.fields
            return EnumV(base.edef, base.discr, vs, base.targs)
        if k == 'deref':
            if isinstance(base, BoxV):
                return BoxV(self.update(st, base.content, rest, val))
            if isinstance(base, PlaceRef):
                self.write_cell(st, base.cell, base.path + rest, val)
                return base
            raise Unsupported("update through %s" % type(base).__name__)
        if k == 'vecitem':
            if isinstance(base, Model) and base.kind == 'vec':
                items = list(base.f['items'].fields)
                items[step[1]] = self.update(st, items[step[1]], rest, val)
                f = dict(base.f)
                f['items'] = Agg(items, 'vecitems')
                return Model('vec', **f)
            raise Unsupported("vecitem update of %s" % type(base).__name__)
        if k == 'vecsel':
            if isinstance(base, Model) and base.kind == 'vec':
                items = list(base.f['items'].fields)
                for n, x in enumerate(items):
                    if x is not None:
                        items[n] = ite_val(step[1] == bv(n, 64), self.update(st, x, rest, val), x)
                f = dict(base.f)
                f['items'] = Agg(items, 'vecitems')
                return Model('vec', **f)
            raise Unsupported("vecsel update of %s" % type(base).__name__)
        if k == 'idx':
            if isinstance(base, Agg):
                i = zsimp(step[1])
                if z3.is_bv_value(i):
                    n = i.as_long()
                    if n >= len(base.fields):
                        raise PathAbort('index', 'write index out of bounds')
                    fs = list(base.fields)
                    fs[n] = self.update(st, fs[n], rest, val)
                    return Agg(fs, base.tag)
                fs = []
                for n, f in enumerate(base.fields):
                    fs.append(ite_val(i == bv(n, 64), self.update(st, f, rest, val), f))
                return Agg(fs, base.tag)
            raise Unsupported("indexed update of %s" % type(base).__name__)
        raise Unsupported("update step %r" % (step,))

    def write_place(self, st, frame, fn, p, val):
        if p[0] == 'local':
            cell = (frame, p[1])
            st.mem[cell] = val
            if p[1] in self.cursor_locals(fn):
                # cursor-like locals (usize) are kept concrete: states that disagree on them are not merged
                if isinstance(val, Agg):
                    # (usize, bool) result of checked arithmetic: the cursor lives in field 0 for a moment
                    r = val.fields[0]
                    r2 = quick_const(r) if is_z3(r) else r
                    if r2 is not None and is_z3(r2) and z3.is_bv_value(r2):
                        st.mem[cell] = Agg((r2,) + tuple(val.fields[1:]), val.tag)
                        st.ckey[cell] = r2.as_long()
                    else:
                        st.ckey.pop(cell, None)
                    return
                if is_z3(val) and z3.is_bv_value(val):
                    st.ckey[cell] = val.as_long()
                else:
                    v2 = quick_const(val) if is_z3(val) else val
                    if v2 is not None and is_z3(v2) and z3.is_bv_value(v2):
                        st.mem[cell] = v2
                        st.ckey[cell] = v2.as_long()
                    else:
                        st.ckey.pop(cell, None)
            return
        c, path = self.resolve(st, frame, fn, p)
        self.write_cell(st, c, path, val)

    def cursor_locals(self, fn):
        c = getattr(fn, '_cursor_locals', None)
        if c is None:
            c = frozenset(n for n, t in fn.locals.items() if t in ('usize', '(usize, bool)')) if self.key_cursors else frozenset()
            try:
                fn._cursor_locals = c
            except AttributeError:
                pass
        return c

    # ------------------------------------------------------------------ constants
    def eval_const(self, text, fn=None):
        t = text.strip()
        m = re.match(r'^(-?\d+)_([iu](?:8|16|32|64|128|size))$', t)
        if m:
            return bv(int(m.group(1)), INT_W[m.group(2)])
        if t == 'true':
            return z3.BoolVal(True)
        if t == 'false':
            return z3.BoolVal(False)
        if t == '()':
            return UNIT
        m = re.match(r'^(?:core::num::<impl )?([iu](?:8|16|32|64|128|size))>?::(MAX|MIN|BITS)$', t)
        if m:
            w = INT_W[m.group(1)]
            s = m.group(1).startswith('i')
            if m.group(2) == 'BITS':
                return bv(w, 32)
            if m.group(2) == 'MAX':
                return bv((1 << (w - 1)) - 1 if s else (1 << w) - 1, w)
            return bv(-(1 << (w - 1)) if s else 0, w)
        if t.startswith('ZeroSized: '):
            ty = t[len('ZeroSized: '):].strip()
            if ty.startswith('{closure@'):
                return Agg([], ty)
            return Agg([], strip_paths(base_name(ty)))
        if t.startswith('"'):
            b = _unescape(t[1:-1]).encode('utf-8', 'surrogatepass')
            return SliceRef([bv(x, 8) for x in b], bv(0, 64), bv(len(b), 64))
        if t.startswith('b"'):
            b = _unescape_bytes(t[2:-1])
            return ValRef(Agg([bv(x, 8) for x in b], 'bytes'))
        if t.startswith("'") and t.endswith("'"):
            s = _unescape(t[1:-1])
            return bv(ord(s), 32)
        if t.startswith("b'"):
            return bv(_unescape_bytes(t[2:-1])[0], 8)
        # named constants and promoteds present in the dump
        key = _strip_turbofish(t)
        for cand0 in (t, key):
            segs = cand0.split('::') if '<' not in cand0 else [cand0]
            for k in range(len(segs)):
                cand = '::'.join(segs[k:])
                if cand in self.dump.const_index and len(self.dump.const_index[cand]) == 1:
                    return self.eval_const_body(cand)
                if cand in self.dump.const_literals:
                    return self.eval_const(self.dump.const_literals[cand][0])
        mp = re.search(r'([A-Za-z_][A-Za-z0-9_]*)::promoted\[(\d+)\]$', key)
        if mp:
            suffix = '::%s::promoted[%s]' % (mp.group(1), mp.group(2))
            cands = [k for k in self.dump.const_index if k.endswith(suffix) or k == suffix[2:]]
            if fn is not None:
                # promoteds of the function being executed come first
                own = [k for k in cands if k.startswith(fn.name + '::promoted[')]
                if own:
                    cands = own
            if len(cands) == 1:
                return self.eval_const_body(cands[0])
            raise Unsupported("promoted constant %r: %d candidates" % (t, len(cands)))
        last = t.rsplit('::', 1)[-1]
        if re.fullmatch(r'[a-z_][a-z0-9_]*', last) and '(' not in t and '{' not in t:
            try:
                if self.resolve_callee(t) is not None:
                    return FnItem(t)         # a function of the dump used as a value
            except Exception:
                pass
        # unit-like ADT constants:  Path::Variant  /  Path::<T>::Variant(Unit)
        try:
            from mirparse import parse_rvalue
            rv = parse_rvalue(t)
            if rv[0] == 'adt':
                return self.eval_adt(None, None, None, rv, const_fields=True)
        except (MirSyntaxError, Unsupported, KeyError):
            pass
        if '::' in t or re.match(r'^[a-z_][A-Za-z0-9_]*$', t):
            return FnItem(t)
        raise Unsupported("constant %r" % t[:80])

    def eval_const_body(self, name):
        cache = getattr(self, '_const_cache', None)
        if cache is None:
            cache = self._const_cache = {}
        if name not in cache:
            f = self.dump.get_const(name)
            st = State()
            g, v = self.call_function(f, [], z3.BoolVal(True), st)
            cache[name] = v
        return cache[name]

    def eval_operand(self, st, frame, fn, op):
        k = op[0]
        if k in ('copy', 'move'):
            return self.read_place_full(st, frame, fn, op[1])
        return self.eval_const(op[1], fn)

    def read_place_full(self, st, frame, fn, p):
        """read_place with support for dynamic index projections."""
        k = p[0]
        if k == 'local':
            v = st.mem.get((frame, p[1]))
            if v is None:
                ty = fn.locals.get(p[1], '')
                if ty.startswith('{closure@'):
                    return Agg([], ty)          # capture-less closure: zero-sized, never assigned in MIR
                if ty == '()':
                    return UNIT
                raise Unsupported("read of uninitialised local _%d in %s" % (p[1], fn.name))
            return v
        if k == 'deref':
            return self.deref(st, self.read_place_full(st, frame, fn, p[1]))
        base = self.read_place_full(st, frame, fn, p[1])
        if isinstance(base, MutSliceRef) and k in ('index', 'constindex'):
            arr = self.read_ref(st, PlaceRef(base.cell, base.path))
            idx = st.mem[(frame, p[2])] if k == 'index' else bv(p[2], 64)
            return self.index_value(arr, idx)
        if k == 'index':
            return self.index_value(base, st.mem[(frame, p[2])])
        v = self.project(st, base, p, fn)
        return v

    # ------------------------------------------------------------------ rvalues
    def eval_adt(self, st, frame, fn, rv, const_fields=False):
        path, fields = rv[1], rv[2]
        vals = []
        for fname, op in fields:
            vals.append(self.eval_operand(st, frame, fn, op) if not const_fields
                        else self.eval_const(op[1]))
        clean = re.sub(r'::<', '<', path)
        # enum variant?  Path::Variant
        k = _rfind_top(clean, '::')
        if k >= 0:
            head, last = clean[:k], clean[k + 2:]
            if re.fullmatch(r'[A-Za-z_][A-Za-z0-9_]*', last):
                edef = self.defs.find_enum(base_name(head)) if head else None
                if edef is not None:
                    try:
                        i, d, fdefs = edef.variant_by_name(last)
                    except KeyError:
                        edef = None
                    else:
                        targs = dict(zip(edef.generics, generic_args(head)))
                        return EnumV(edef, bv(d, 64), {last: tuple(vals)}, targs)
        sdef = self.defs.find_struct(base_name(clean))
        return Agg(vals, sdef.name if sdef else strip_paths(base_name(clean)))

    def eval_rvalue(self, st, frame, fn, rv):
        k = rv[0]
        if k == 'use':
            return self.eval_operand(st, frame, fn, rv[1])
        if k == 'ref':
            mut, p = rv[1], rv[2]
            if mut:
                if p[0] == 'deref':
                    r0 = self.read_place_full(st, frame, fn, p[1])
                    if isinstance(r0, MutSliceRef):
                        return r0
                c, path = self.resolve(st, frame, fn, p)
                return PlaceRef(c, path)
            v = self.read_place_full(st, frame, fn, p)
            if isinstance(v, (SliceRef, MutSliceRef)) and p[0] == 'deref':
                return v
            return ValRef(v)
        if k == 'rawptr':
            mut, p = rv[1], rv[2]
            v = self.read_place_full(st, frame, fn, p)
            if isinstance(v, (SliceRef, MutSliceRef)):
                return v
            return ValRef(v)
        if k == 'cast':
            return self.eval_cast(st, frame, fn, rv)
        if k == 'binop':
            a = self.eval_operand(st, frame, fn, rv[2])
            b = self.eval_operand(st, frame, fn, rv[3])
            ta = self.type_of_operand(fn, rv[2]) or self.type_of_operand(fn, rv[3])
            return self.binop(rv[1], a, b, ta)
        if k == 'unop':
            a = self.eval_operand(st, frame, fn, rv[2])
            if rv[1] == 'Not':
                return znot(a) if z3.is_bool(a) else ~a
            if rv[1] == 'Neg':
                return -a
            if rv[1] == 'PtrMetadata':
                if isinstance(a, (SliceRef, MutSliceRef)):
                    return a.length
                raise Unsupported("PtrMetadata of %s" % type(a).__name__)
        if k == 'discriminant':
            v = self.read_place_full(st, frame, fn, rv[1])
            if isinstance(v, EnumV):
                return v.discr
            raise Unsupported("discriminant of %s in %s" % (type(v).__name__, fn.name))
        if k == 'len':
            v = self.read_place_full(st, frame, fn, rv[1])
            if isinstance(v, SliceRef):
                return v.length
            if isinstance(v, Agg):
                return bv(len(v.fields), 64)
            raise Unsupported("Len of %s" % type(v).__name__)
        if k == 'tuple':
            if not rv[1]:
                return UNIT
            return Agg([self.eval_operand(st, frame, fn, o) for o in rv[1]])
        if k == 'array':
            return Agg([self.eval_operand(st, frame, fn, o) for o in rv[1]], 'array')
        if k == 'repeat':
            v = self.eval_operand(st, frame, fn, rv[1])
            n = self.eval_const(rv[2].replace('const ', '')) if not rv[2].strip().isdigit() else bv(int(rv[2]), 64)
            n = zsimp(n).as_long()
            if n > 4096:
                raise Unsupported("array repeat of %d" % n)
            return Agg([v] * n, 'array')
        if k == 'adt':
            return self.eval_adt(st, frame, fn, rv)
        if k == 'closure':
            vals = [self.eval_operand(st, frame, fn, o) for _, o in rv[2]]
            need = self._closure_captures(rv[1])
            if need is not None and need > len(vals):
                # rustc's MIR printer names closure fields after the captured variable; two disjoint captures of the same
                # variable (`identifier.name`, `identifier.location`) print as ONE field.  The capture temporaries are
                # numbered consecutively right before the aggregate: recover the dropped operands from them, fail closed
                # if that shape is not found.
                ops = [o for _, o in rv[2]]
                if not ops or ops[0][0] not in ('move', 'copy') or ops[0][1][0] != 'local':
                    raise Unsupported("closure %s: %d captures printed, %d used by its body" % (rv[1][:60], len(vals), need))
                first = ops[0][1][1]
                vals = []
                for n in range(first, first + need):
                    v = st.mem.get((frame, n))
                    if v is None or not isinstance(v, (ValRef, PlaceRef)) and not fn.locals.get(n, '').startswith('&'):
                        raise Unsupported("closure %s: capture _%d not found" % (rv[1][:60], n))
                    vals.append(v)
            return Agg(vals, rv[1])
        raise Unsupported("rvalue %r" % (rv,))

    def _closure_captures(self, tag):
        """Number of captured fields the body of the closure uses (highest `_1.N` / `(*_1).N` + 1), None if unknown."""
        cache = getattr(self, '_capture_counts', None)
        if cache is None:
            cache = self._capture_counts = {}
        if tag not in cache:
            n = None
            for name, spans in self.dump.fn_index.items():
                if '{closure#' not in name:
                    continue
                f = self.dump.get(name)
                if f.params and tag in f.params[0][1]:
                    text = self.dump.text_of(name) if hasattr(self.dump, 'text_of') else None
                    if text is None:
                        break
                    idx = [int(x) for x in re.findall(r'\(\*?_1\)?\.(\d+): ', text)] + [int(x) for x in re.findall(r'\(_1\.(\d+): ', text)]
                    n = (max(idx) + 1) if idx else 0
                    break
            cache[tag] = n
        return cache[tag]

    def eval_cast(self, st, frame, fn, rv):
        op, ty, kind = rv[1], rv[2], rv[3]
        v = self.eval_operand(st, frame, fn, op)
        if kind == 'IntToInt':
            src = self.type_of_operand(fn, op)
            dst = int_info(ty)
            if dst is None:
                raise Unsupported("IntToInt to %s" % ty)
            if z3.is_bool(v):
                return zite(v, bv(1, dst[0]), bv(0, dst[0]))
            si = int_info(src) if src else None
            if si is None:
                # enum -> int cast
                if isinstance(v, EnumV):
                    return _resize(v.discr, 64, dst[0], True)
                sw = v.size()
                signed = False
            else:
                sw, signed = si
            return _resize(v, sw, dst[0], signed)
        if kind == 'Transmute':
            if isinstance(v, (BoxPtr, ValRef, SliceRef)):
                return v
            raise Unsupported("transmute of %s" % type(v).__name__)
        if kind.startswith('PointerCoercion(Unsize'):
            if isinstance(v, ValRef) and isinstance(v.val, Agg):
                return SliceRef(v.val.fields, bv(0, 64), bv(len(v.val.fields), 64))
            if isinstance(v, (SliceRef, MutSliceRef)):
                return v
            if isinstance(v, PlaceRef):
                arr = self.read_ref(st, v)
                if isinstance(arr, Agg):
                    return MutSliceRef(v.cell, v.path, bv(len(arr.fields), 64))
            if 'dyn ' in ty:
                return Opaque('dyn')
            raise Unsupported("unsize of %s" % type(v).__name__)
        if kind in ('PtrToPtr', 'PointerCoercion(MutToConstPointer, Implicit)', 'PointerCoercion(MutToConstPointer)'):
            return v
        if kind.startswith('PointerCoercion(ReifyFnPointer') or kind.startswith('PointerCoercion(ClosureFnPointer'):
            return v
        raise Unsupported("cast kind %s" % kind)

    def binop(self, op, a, b, ty):
        if isinstance(a, EnumV) or isinstance(b, EnumV):
            raise Unsupported("binop on enum")
        if z3.is_bool(a) and z3.is_bool(b):
            if op == 'Eq':
                return a == b
            if op == 'Ne':
                return a != b
            if op == 'BitAnd':
                return zand(a, b)
            if op == 'BitOr':
                return zor(a, b)
            if op == 'BitXor':
                return z3.Xor(a, b)
            raise Unsupported("bool binop %s" % op)
        ii = int_info(ty) if ty else None
        if ii is None:
            if is_z3(a) and z3.is_bv(a):
                ii = (a.size(), False)
                if op not in ('Eq', 'Ne', 'Add', 'Sub', 'Mul', 'BitAnd', 'BitOr', 'BitXor'):
                    raise Unsupported("binop %s on untyped operands" % op)
            else:
                raise Unsupported("binop %s on %s" % (op, type(a).__name__))
        w, signed = ii
        if op in ('Shl', 'Shr', 'ShlUnchecked', 'ShrUnchecked'):
            bw = b.size()
            if bw < w:
                b = z3.ZeroExt(w - bw, b)
            elif bw > w:
                b = z3.Extract(w - 1, 0, b)
            # rustc masks the shift amount in wrapping mode; overflow is asserted separately
            b = b & bv(w - 1, w)
            if op.startswith('Shl'):
                return a << b
            return (a >> b) if signed else z3.LShR(a, b)
        if op in ('Add', 'AddUnchecked'):
            return a + b
        if op in ('Sub', 'SubUnchecked'):
            return a - b
        if op in ('Mul', 'MulUnchecked'):
            d = over_const_leaves(b, lambda c: a * c) or over_const_leaves(a, lambda c: c * b)
            return d if d is not None else a * b
        if op == 'Div':
            d = over_const_leaves(b, lambda c: (a / c) if signed else z3.UDiv(a, c))
            return d if d is not None else ((a / b) if signed else z3.UDiv(a, b))
        if op == 'Rem':
            d = over_const_leaves(b, lambda c: z3.SRem(a, c) if signed else z3.URem(a, c))
            return d if d is not None else (z3.SRem(a, b) if signed else z3.URem(a, b))
        if op == 'BitAnd':
            return a & b
        if op == 'BitOr':
            return a | b
        if op == 'BitXor':
            return a ^ b
        if op == 'Eq':
            return a == b
        if op == 'Ne':
            return a != b
        if op in ('Lt', 'Le', 'Gt', 'Ge') and not signed and self.var_bounds:
            d = self.decide_cmp(op, a, b)
            if d is not None:
                return z3.BoolVal(d)
        if op == 'Lt':
            return (a < b) if signed else z3.ULT(a, b)
        if op == 'Le':
            return (a <= b) if signed else z3.ULE(a, b)
        if op == 'Gt':
            return (a > b) if signed else z3.UGT(a, b)
        if op == 'Ge':
            return (a >= b) if signed else z3.UGE(a, b)
        if op == 'Cmp':
            lt = (a < b) if signed else z3.ULT(a, b)
            d = zite(lt, bv(-1, 64), zite(a == b, bv(0, 64), bv(1, 64)))
            return EnumV(self.defs.find_enum('Ordering'), d, {'Less': (), 'Equal': (), 'Greater': ()})
        if op == 'AddWithOverflow':
            r = a + b
            ovf = znot(z3.BVAddNoOverflow(a, b, signed)) if not signed else \
                znot(zand(z3.BVAddNoOverflow(a, b, True), z3.BVAddNoUnderflow(a, b)))
            return Agg([r, ovf])
        if op == 'SubWithOverflow':
            r = a - b
            ovf = znot(z3.BVSubNoUnderflow(a, b, signed)) if not signed else \
                znot(zand(z3.BVSubNoOverflow(a, b), z3.BVSubNoUnderflow(a, b, True)))
            return Agg([r, ovf])
        if op == 'MulWithOverflow':
            def mul_ovf(x, y):
                return znot(z3.BVMulNoOverflow(x, y, signed)) if not signed else \
                    znot(zand(z3.BVMulNoOverflow(x, y, True), z3.BVMulNoUnderflow(x, y)))
            for x, y in ((a, b), (b, a)):
                r = over_const_leaves(y, lambda c: x * c)
                if r is not None:
                    # the overflow flag distributes in the same way (boolean leaves: build it as a 1-bit value)
                    o = over_const_leaves(y, lambda c: z3.If(mul_ovf(x, c), bv(1, 1), bv(0, 1)))
                    return Agg([r, o == bv(1, 1)])
            return Agg([a * b, mul_ovf(a, b)])
        raise Unsupported("binop %s" % op)

    def interval(self, t):
        """(lo, hi) of an unsigned term if it is a constant or a hinted variable, else None."""
        if z3.is_bv_value(t):
            return t.as_long(), t.as_long()
        if z3.is_const(t) and t.decl().kind() == z3.Z3_OP_UNINTERPRETED:
            return self.var_bounds.get(t.decl().name())
        return None

    def decide_cmp(self, op, a, b):
        """Decide an unsigned comparison from the harness' variable bounds (sound: the bounds are also
        asserted as assumptions), or None."""
        ia, ib = self.interval(a), self.interval(b)
        if ia is None or ib is None:
            return None
        (alo, ahi), (blo, bhi) = ia, ib
        if op == 'Lt':
            return True if ahi < blo else (False if alo >= bhi else None)
        if op == 'Le':
            return True if ahi <= blo else (False if alo > bhi else None)
        if op == 'Gt':
            return True if alo > bhi else (False if ahi <= blo else None)
        if op == 'Ge':
            return True if alo >= bhi else (False if ahi < blo else None)
        return None

    # ------------------------------------------------------------------ execution
    def cfg(self, fn):
        c = self.cfgs.get(id(fn))
        if c is None:
            c = self.cfgs[id(fn)] = CFG(fn)
        return c

    def call_function(self, fn, args, guard, st):
        """Inline fn and merge all its return paths. Returns (guard_after, return value); st is updated
        in place."""
        outs = self.call_function_multi(fn, args, guard, st)
        if not outs:
            return z3.BoolVal(False), None
        if len(outs) == 1:
            g, v, st2 = outs[0]
        else:
            # merge the outcomes, return value included
            tmp = ('ret', id(outs))
            items = []
            for g_, v_, s_ in outs:
                s_.mem[tmp] = v_ if v_ is not None else UNIT
                items.append((g_, s_))
            g, st2 = merge_states(items)
            v = st2.mem.pop(tmp)
            st2.ckey = {}
        if st2 is not st:
            st.mem, st.dom, st.ckey = st2.mem, st2.dom, st2.ckey
        return g, v

    def call_function_multi(self, fn, args, guard, st):
        """Inline fn. Returns a list of outcomes (guard, return value, state): return paths that disagree
        on a concrete cursor value (or return different concrete usize values) stay separate.
        Calls whose arguments are all immutable values (no &mut) are pure: they are executed once
        under the guard `true` and the summary (ok-condition, value, obligations) is reused."""
        if self.memo_pure and not isinstance(fn, ClosureAdapter):
            key = _pure_key(fn, args)
            if key is not None:
                hit = self.pure_cache.get(key)
                if hit is None:
                    n_ob = len(self.obligations)
                    outs0 = self._call_function(fn, args, z3.BoolVal(True), State({}, {}))
                    obs = self.obligations[n_ob:]
                    del self.obligations[n_ob:]
                    hit = ([(g0, v0) for g0, v0, _ in outs0], obs, args)
                    self.pure_cache[key] = hit
                else:
                    self.stats['memo_hits'] += 1
                outs0, obs, _keep = hit
                for kind, og, msg in obs:
                    self.oblige(kind, zand(guard, og), msg)
                if len(outs0) == 1:
                    return [(zand(guard, outs0[0][0]), outs0[0][1], st)]
                return [(zand(guard, g0), v0, st.copy()) for g0, v0 in outs0]
        return self._call_function(fn, args, guard, st)

    def _call_function(self, fn, args, guard, st):
        if len(self.stack) >= self.call_depth:
            raise PathAbort('recursion', 'call depth %d reached at %s' % (self.call_depth, fn.name))
        self.frame_serial += 1
        frame = self.frame_serial
        self.inlined[fn.name] += 1
        self.stack.append(fn.name)
        try:
            for (n, _t), a in zip(fn.params, args):
                st.mem[(frame, n)] = a
            if len(args) != len(fn.params):
                raise Unsupported("arity mismatch calling %s" % fn.name)
            cfg = self.cfg(fn)
            top_blocks = set(cfg.rpo)
            exits = self.run_region(fn, frame, cfg, None, top_blocks, 0, [(guard, st.copy())])
            rets = exits.get('return', [])
            for key in exits:
                if key != 'return':
                    raise Unsupported("stray exit %r from %s" % (key, fn.name))
            if not rets:
                return []
            # group the return states: caller-visible cursor keys plus a concrete usize return value
            groups = {}
            ret_is_cursor = 0 in self.cursor_locals(fn)
            for g_, s_ in rets:
                s_.ckey = {k: v for k, v in s_.ckey.items() if k[0] != frame or (k[1] == 0 and ret_is_cursor)}
                groups.setdefault(s_.key(), []).append((g_, s_))
            outs = []
            first = True
            for gk in sorted(groups):
                g, rst = merge_states(groups[gk])
                ret = rst.mem.get((frame, 0))
                if ret is None:
                    ret = UNIT
                target = st if first else State()
                first = False
                target.mem = {k: v for k, v in rst.mem.items() if k[0] != frame}
                target.ckey = {k: v for k, v in rst.ckey.items() if k[0] != frame}
                target.dom = rst.dom
                outs.append((g, ret, target))
            return outs
        finally:
            self.stack.pop()

    def run_region(self, fn, frame, cfg, header, blocks, entry, incoming):
        inc = collections.defaultdict(list)
        inc[entry].extend(incoming)
        exits = collections.defaultdict(list)
        first = True
        for b in cfg.rpo:
            if b not in blocks:
                continue
            ih = cfg.inner.get(b)
            if ih != header:
                # b belongs to a loop nested inside the current region
                # find the outermost such loop whose parent is `header`
                h2 = ih
                while cfg.parent.get(h2) != header:
                    h2 = cfg.parent.get(h2)
                    if h2 is None:
                        break
                if h2 is None:
                    raise Unsupported("irreducible loop nesting in %s" % fn.name)
                if b == h2 and inc.get(b):
                    res = self.run_loop(fn, frame, cfg, h2, inc.pop(b))
                    for t, lst in res.items():
                        for (g, s) in lst:
                            self._deliver(cfg, header, blocks, inc, exits, t, g, s)
                continue
            items = inc.pop(b, None)
            if not items:
                continue
            if self.use_liveness:
                live = cfg.live_in[b]
                keep = cfg.addr_taken
                for _, s_ in items:
                    dead = [k for k in s_.mem if k[0] == frame and k[1] not in live and k[1] not in keep]
                    for k in dead:
                        del s_.mem[k]
                        s_.ckey.pop(k, None)
            groups = {}
            if len(items) > 1:
                for it in items:
                    groups.setdefault(it[1].key(), []).append(it)
            else:
                groups[()] = items
            for gk in sorted(groups):
                g, s = merge_states(groups[gk])
                if z3.is_false(g):
                    continue
                for (t, g2, s2) in self.exec_block(fn, frame, b, g, s):
                    self._deliver(cfg, header, blocks, inc, exits, t, g2, s2)
        return exits

    def _deliver(self, cfg, header, blocks, inc, exits, t, g, s):
        if z3.is_false(g):
            return
        if t == 'return':
            exits['return'].append((g, s))
        elif t == header:
            exits[('back', header)].append((g, s))
        elif t in blocks:
            inc[t].append((g, s))
        else:
            exits[t].append((g, s))

    def run_loop(self, fn, frame, cfg, h, incoming):
        bound = self.loop_bounds.get((fn.name, h), self.loop_bound)
        total = collections.defaultdict(list)
        cur = incoming
        blocks = cfg.loops[h]
        k = 0
        while True:
            g_in = zor(*[g for g, _ in cur])
            if not self.feasible(g_in):
                break
            if k >= bound:
                self.oblige('unwind', g_in, 'loop bb%d of %s not exhausted after %d iterations' % (h, fn.name, bound))
                break
            self.stats['loop_iterations'] += 1
            ex = self.run_region(fn, frame, cfg, h, blocks, h, cur)
            cur = ex.pop(('back', h), [])
            for t, lst in ex.items():
                total[t].extend(lst)
            if not cur:
                break
            k += 1
        return total

    def exec_block(self, fn, frame, bb, guard, st):
        self.stats['blocks'] += 1
        stmts = parsed_block(fn, bb)
        try:
            for s in stmts[:-1]:
                self.exec_stmt(fn, frame, st, s)
            return self.exec_term(fn, frame, st, guard, stmts[-1])
        except PathAbort as e:
            self.oblige(e.kind, guard, '%s [%s bb%d]' % (e.msg, fn.name, bb))
            return []

    def exec_stmt(self, fn, frame, st, s):
        k = s[0]
        if k == 'nop':
            return
        if k == 'assign':
            v = self.eval_rvalue(st, frame, fn, s[2])
            if s[2][0] == 'discriminant':
                # the discriminant has the enum's repr type (u8 for #[repr(u8)], isize by default)
                ii = int_info(self.type_of_place(fn, s[1]))
                if ii and ii[0] != v.size():
                    v = zsimp(z3.Extract(ii[0] - 1, 0, v))
            self.write_place(st, frame, fn, s[1], v)
            return
        if k == 'setdiscr':
            raise Unsupported("SetDiscriminant")
        raise Unsupported("statement %r in non-terminator position" % (k,))

    def exec_term(self, fn, frame, st, guard, t):
        k = t[0]
        if k == 'goto':
            return [(t[1], guard, st)]
        if k == 'return':
            return [('return', guard, st)]
        if k == 'unreachable':
            self.oblige('unreachable', guard, 'MIR `unreachable` reached in %s' % fn.name)
            return []
        if k == 'resume':
            return []
        if k == 'drop':
            if t[2] is None:
                return []
            ty = self.type_of_place(fn, t[1]) if t[1][0] == 'local' else None
            target = self.drop_impl(ty) if ty else None
            if target is not None:
                c, path = self.resolve(st, frame, fn, t[1])
                if st.mem.get(c) is None:
                    return [(t[2], guard, st)]        # moved-out or never initialised on this path
                outs = self.call_function_multi(target, [PlaceRef(c, path)], guard, st)
                return [(t[2], g2, st2) for g2, _rv, st2 in outs if not z3.is_false(g2)]
            return [(t[2], guard, st)]
        if k == 'assert':
            c = self.eval_operand(st, frame, fn, t[1])
            ok = c if t[2] else znot(c)
            self.oblige('panic', zand(guard, znot(ok)), '%s in %s' % (t[3][:60], fn.name))
            return [(t[4], zand(guard, ok), st)]
        if k == 'switch':
            v = self.eval_operand(st, frame, fn, t[1])
            out = []
            taken = []
            dname, dom = None, None
            if z3.is_bool(v):
                conds = [(znot(v) if val == 0 else v) for val, _ in t[2]]
            else:
                w = v.size()
                conds = [v == bv(val, w) for val, _ in t[2]]
                if z3.is_const(v) and v.decl().kind() == z3.Z3_OP_UNINTERPRETED:
                    dname = v.decl().name()
                    dom = st.dom.get(dname, self.base_dom.get(dname))
            seen_vals = set()
            for (val, bb), c in zip(t[2], conds):
                if dom is not None:
                    sval = val if val < (1 << 63) else val - (1 << 64)
                    if val not in dom and sval not in dom:
                        self.stats['pruned_branches'] += 1
                        continue
                    seen_vals.add(val if val in dom else sval)
                c = zsimp(c)
                if z3.is_false(c):
                    continue
                taken.append(c)
                if z3.is_true(c):
                    return [(bb, guard, st)]
                gc = zand(guard, c)
                if self.prune_switch and not self.feasible(gc):
                    self.stats['pruned_branches'] += 1
                    continue
                st2 = st.copy()
                if dom is not None:
                    st2.dom[dname] = frozenset([val if val in dom else sval])
                out.append((bb, gc, st2))
            if t[3] is not None:
                rest = None
                if dom is not None:
                    rest = dom - seen_vals
                    if not rest:
                        self.stats['pruned_branches'] += 1
                        return out
                c = znot(zor(*taken)) if taken else z3.BoolVal(True)
                gc = zand(guard, c)
                if self.prune_switch and taken and not self.feasible(gc):
                    self.stats['pruned_branches'] += 1
                else:
                    st2 = st.copy()
                    if rest is not None:
                        st2.dom[dname] = frozenset(rest)
                    out.append((t[3], gc, st2))
            return out
        if k == 'call':
            dest, callee, args, ret_bb = t[1], t[2], t[3], t[4]
            argv = [self.eval_operand(st, frame, fn, a) for a in args]
            self._ret_ty = self.type_of_place(fn, dest) if dest is not None else '()'
            res = self.do_call(fn, callee, argv, guard, st)
            outcomes = res if isinstance(res, list) else [(res[0], res[1], st)]
            edges = []
            for g2, rv, st2 in outcomes:
                if ret_bb is None or z3.is_false(g2):
                    continue
                if rv is None:
                    rv = UNIT
                self.write_place(st2, frame, fn, dest, rv)
                edges.append((ret_bb, g2, st2))
            return edges
        if k == 'assign':
            # block without explicit terminator cannot happen
            raise Unsupported("block ends with assignment")
        raise Unsupported("terminator %r" % (k,))

    # ------------------------------------------------------------------ calls
    def do_call(self, fn, callee, argv, guard, st):
        for hp in self.havoc_patterns:
            depth_, expand_ = 0, (lambda b: False)
            if isinstance(hp, tuple):
                hp, depth_, expand_ = hp
            if re.search(hp, callee):
                self.used_models['havoc: ' + hp] += 1
                self.fresh_n += 1
                hv = self.fresh_value(self._ret_ty, 'havoc!%d' % self.fresh_n, depth=depth_, expand=expand_)
                self.havoc_log.append((callee, hv))
                return guard, hv
        for rx, handler, label in self.models:
            m = rx.match(callee)
            if m:
                self.used_models[label] += 1
                return handler(self, m, argv, guard, st, callee)
        target = self.resolve_callee(callee, argv)
        if target is None:
            raise Unsupported("call to %s (from %s): no model and not in the dump" % (callee[:140], fn.name))
        return self.call_function_multi(target, argv, guard, st)

    def drop_impl(self, ty):
        """The user-written `Drop::drop` of type ty in the dump, if any (std types drop as no-ops in the models)."""
        cache = getattr(self, '_drop_cache', None)
        if cache is None:
            cache = self._drop_cache = {}
        base = strip_paths(base_name(ty))
        if base not in cache:
            self._build_impl_index()
            hits = [e for e in self.impl_index if e['trait'] == 'Drop' and e['method'] == 'drop'
                    and re.sub(r'<.*$', '', e['self']).strip() == base]
            cache[base] = self.dump.get(hits[0]['name'], hits[0]['which']) if len(hits) == 1 else None
        return cache[base]

    def add_model(self, pattern, handler, label=None):
        self.models.append((re.compile(pattern), handler, label or pattern))

    def resolve_callee(self, callee, argv=None):
        cache = getattr(self, '_resolve_cache', None)
        if cache is None:
            cache = self._resolve_cache = {}
        if callee in cache:
            return cache[callee]
        r = self._resolve_callee(callee)
        cache[callee] = r
        return r

    def _resolve_callee(self, callee):
        dump = self.dump
        c = _strip_turbofish(callee)
        if c in dump.fn_index and len(dump.fn_index[c]) == 1:
            return dump.get(c)
        # closures: <{closure@FILE:L:C: L:C} as FnMut<(..)>>::call_mut
        m = re.match(r'^<(\{closure@[^}]*\}) as (?:std::ops::)?Fn(?:Mut|Once)?<.*>>::call(?:_mut|_once)?$', callee)
        if m:
            tag = m.group(1)
            for name, spans in dump.fn_index.items():
                if '{closure#' in name:
                    f = dump.get(name)
                    if f.params and tag in f.params[0][1]:
                        return ClosureAdapter(f)
            return None
        self._build_impl_index()
        # trait method: <T as Trait>::method
        m = re.match(r'^<(.*) as ([^>]*?)(?:<.*>)?>::([A-Za-z_][A-Za-z0-9_]*)$', c)
        if m:
            selfty, trait, meth = strip_paths(m.group(1)), strip_paths(m.group(2)), m.group(3)
            hits = [e for e in self.impl_index if e['method'] == meth and e['trait'] == trait
                    and _type_match(e['self'], selfty)]
            if len(hits) > 1 and '::' in m.group(2):
                # several modules define a trait of this name: use the module path of the trait
                mod = m.group(2).rsplit('::', 1)[0].split('::')[-1]
                h2 = [e for e in hits if e['name'].startswith(mod + '::') or ('::' + mod + '::') in e['name']
                      or ('/' + mod + '.rs') in e['name']]
                if h2:
                    hits = h2
            if len(hits) > 1:
                # several types of this name: use the module path of the self type as written at the call site
                selfpath = re.sub(r'<.*$', '', m.group(1).lstrip('&').replace('mut ', '').strip())
                if '::' in selfpath:
                    mod = selfpath.rsplit('::', 1)[0]
                    h2 = [e for e in hits if e['name'].startswith(mod + '::') or ('::' + mod + '::') in e['name']
                          or mod.endswith(e['name'].split('::<impl')[0])]
                    if h2:
                        hits = h2
            if len(hits) > 1:
                # same type name in two modules (TokenId): compare the paths as written in the impl header with the call:
                # an unqualified name in the header means "the type of the impl's own module"
                def qual(raw, e):
                    raw = re.sub(r"<.*$", '', raw.replace("&'a ", '&').lstrip('&').strip())
                    if '::' in raw:
                        return raw
                    return e['name'].split('::<impl')[0] + '::' + raw
                call_self = re.sub(r'<.*$', '', m.group(1).lstrip('&').strip())
                targ = re.search(r' as [^<>]*<(.*)>>::', c)
                call_arg = re.sub(r'<.*$', '', targ.group(1).lstrip('&').strip()) if targ else None

                def score(e):
                    sc = 0
                    qs = qual(e['self_raw'], e)
                    if qs.endswith(call_self) or call_self.endswith(qs):
                        sc += 2
                    if call_arg and e.get('trait_raw'):
                        ta = re.search(r'<(.*)>$', e['trait_raw'])
                        if ta:
                            qa = qual(ta.group(1), e)
                            if qa.endswith(call_arg) or call_arg.endswith(qa):
                                sc += 1
                    return sc
                best = sorted(hits, key=score, reverse=True)
                if score(best[0]) > score(best[1]):
                    hits = [best[0]]
            if len(hits) == 1:
                return dump.get(hits[0]['name'], hits[0]['which'])
            return None
        # inherent method of a type defined elsewhere:  module::<impl Type>::method
        mi = re.match(r'^(.*?)::<impl ([^<>]*(?:<.*>)?)>::([A-Za-z_][A-Za-z0-9_]*)(?:::<.*>)?$', callee)
        if mi:
            ty, meth = strip_paths(mi.group(2)), mi.group(3)
            hits = [e for e in self.impl_index if e['method'] == meth and e['trait'] is None and _type_match(e['self'], ty)]
            h2 = [e for e in hits if e['name'].startswith(mi.group(1) + '::')]
            hits = h2 or hits
            if len(hits) > 1 and len({e['name'] for e in hits}) == 1:
                hits = hits[:1]
            if len(hits) == 1:
                return dump.get(hits[0]['name'], hits[0]['which'])
            return None
        # inherent method: path::Type::method
        segs = split_top(c, '::')
        if len(segs) >= 2:
            meth, ty = segs[-1], strip_paths(segs[-2])
            hits = [e for e in self.impl_index if e['method'] == meth and e['trait'] is None
                    and _type_match(e['self'], ty)]
            if not hits:
                # inherent methods generated by a derive macro (strum::FromRepr, ...) carry the macro name as "trait"
                hits = [e for e in self.impl_index if e['method'] == meth and _type_match(e['self'], ty)
                        and e['trait'] not in (None, 'Clone', 'PartialEq', 'Debug', 'Default', 'Eq', 'Ord', 'PartialOrd', 'Hash')]
            if len(hits) > 1 and len({e['name'] for e in hits}) == 1:
                hits = hits[:1]          # the same const fn printed twice (runtime MIR and MIR for CTFE)
            if len(hits) == 1:
                return dump.get(hits[0]['name'], hits[0]['which'])
            if len(hits) > 1:
                # disambiguate by module prefix
                pref = '::'.join(segs[:-2])
                h2 = [e for e in hits if pref and e['name'].startswith(pref)]
                if len(h2) == 1:
                    return dump.get(h2[0]['name'], h2[0]['which'])
        return None

    def _build_impl_index(self):
        if self.impl_index is not None:
            return
        self.impl_index = []
        srccache = {}
        for name, spans in self.dump.fn_index.items():
            m = re.search(r'<impl at ([^:>]+):(\d+):(\d+): (\d+):(\d+)>::([A-Za-z_][A-Za-z0-9_]*)$', name)
            if not m:
                continue
            path, l1, c1, l2, c2, meth = m.group(1), int(m.group(2)), int(m.group(3)), int(m.group(4)), int(m.group(5)), m.group(6)
            full = os.path.join(os.environ.get('VERIF_REPO', '/repo'), path)
            if full not in srccache:
                try:
                    srccache[full] = open(full).read().split('\n')
                except OSError:
                    srccache[full] = None
            lines = srccache[full]
            if lines is None:
                continue
            trait, selfty = None, None
            self_raw, trait_raw = None, None
            if l1 == l2:
                span = lines[l1 - 1].expandtabs(4)[c1 - 1:c2 - 1] if False else _span_text(lines[l1 - 1], c1, c2)
            else:
                span = ' '.join([_span_text(lines[l1 - 1], c1, None)] + [x.strip() for x in lines[l1:l2 - 1]]
                                + [_span_text(lines[l2 - 1], 1, c2)])
            if re.fullmatch(r'[A-Za-z_][A-Za-z0-9_:]*', span.strip()) and not span.strip().startswith('impl'):
                # derive macro: trait name; self type is the next item
                trait = span.strip().split('::')[-1]
                for ln in lines[l1 - 1:l1 + 12]:
                    mm = re.match(r'\s*(?:pub(?:\([^)]*\))?\s+)?(?:enum|struct)\s+([A-Za-z_][A-Za-z0-9_]*)', ln)
                    if mm:
                        selfty = mm.group(1)
                        break
            else:
                mm = re.match(r'impl\s*(<.*?>)?\s*(.*)$', span.strip())
                if not mm:
                    continue
                rest = mm.group(2)
                k = find_top(rest, ' for ')
                trait_raw = None
                if k >= 0:
                    trait_raw = rest[:k].strip()
                    trait = strip_paths(re.sub(r'<.*$', '', rest[:k].strip()))
                    selfty = rest[k + 5:].strip()
                else:
                    selfty = rest.strip()
                self_raw = re.sub(r'\s+where.*$', '', selfty).strip()
                selfty = strip_paths(re.sub(r'\s+where.*$', '', selfty))
            for which in range(len(spans)):
                self.impl_index.append({'name': name, 'which': which, 'method': meth, 'trait': trait,
                                        'self': selfty or '?',
                                        'self_raw': locals().get('self_raw') or (selfty or '?'),
                                        'trait_raw': locals().get('trait_raw')})


def _val_key(v):
    if is_z3(v):
        return ('z', v.get_id())
    if isinstance(v, ValRef):
        k = _val_key(v.val)
        return None if k is None else ('r', k)
    if isinstance(v, Agg):
        # an aggregate that carries a mutable reference (closure captures, buffers) is not a pure argument
        for f in v.fields:
            if isinstance(f, (PlaceRef, MutSliceRef, Model)) or (isinstance(f, Agg) and _val_key(f) is None):
                return None
        return ('o', id(v))
    if isinstance(v, (EnumV, BoxV, BoxPtr, SliceRef, Opaque, Unit, FnItem)):
        return ('o', id(v))
    return None


def _pure_key(fn, args):
    ks = []
    for a in args:
        k = _val_key(a)
        if k is None:
            return None
        ks.append(k)
    return (fn.name, tuple(ks))


class DowncastView:
    """The fields of one variant of an enum value (result of a Downcast projection)."""
    __slots__ = ('fields',)

    def __init__(self, fields):
        self.fields = tuple(fields)


class ClosureAdapter:
    """Marks a closure body: call(closure, (args,)) -> body(closure, args...)."""

    def __init__(self, fn):
        self.fn = fn


def _span_text(line, c1, c2):
    # rustc columns count characters, tabs as one
    return line[c1 - 1:(c2 - 1) if c2 else None]


def _type_match(impl_self, call_self):
    a = re.sub(r"<.*$", '', impl_self.replace('&mut ', '&').strip())
    b = re.sub(r"<.*$", '', call_self.replace('&mut ', '&').replace("'_ ", '').strip())
    return a == b


def _strip_turbofish(c):
    out, i, n = [], 0, len(c)
    while i < n:
        if c.startswith('::<', i):
            # skip balanced <...>
            depth, j = 0, i + 2
            while j < n:
                if c[j] == '<':
                    depth += 1
                elif c[j] == '>' and c[j - 1] not in '-=':
                    depth -= 1
                    if depth == 0:
                        break
                j += 1
            i = j + 1
            continue
        out.append(c[i])
        i += 1
    return ''.join(out)


def _rfind_top(s, needle):
    last, k = -1, 0
    while True:
        k = find_top(s, needle, k)
        if k < 0:
            return last
        last = k
        k += len(needle)


def _resize(v, sw, dw, signed):
    if v.size() != sw:
        sw = v.size()
    if dw == sw:
        return v
    if dw < sw:
        return z3.Extract(dw - 1, 0, v)
    return z3.SignExt(dw - sw, v) if signed else z3.ZeroExt(dw - sw, v)


def select(elems, idx):
    """elems[idx] with a symbolic 64-bit idx (out-of-range reads yield the last element; callers
    guard accesses with explicit bound checks)."""
    idx = zsimp(idx)
    n = len(elems)
    if n == 0:
        raise PathAbort('index', 'index into empty backing store')
    if z3.is_bv_value(idx):
        i = idx.as_long()
        if i >= n:
            raise PathAbort('index', 'constant index %d out of bounds %d' % (i, n))
        return elems[i]
    acc = elems[n - 1]
    for i in range(n - 2, -1, -1):
        acc = ite_val(idx == bv(i, 64), elems[i], acc)
    return acc


def _unescape(s):
    return bytes(s, 'utf-8').decode('unicode_escape') if '\\' in s else s


def _unescape_bytes(s):
    out = bytearray()
    i = 0
    while i < len(s):
        c = s[i]
        if c == '\\':
            n = s[i + 1]
            if n == 'x':
                out.append(int(s[i + 2:i + 4], 16))
                i += 4
                continue
            out.append({'n': 10, 'r': 13, 't': 9, '\\': 92, '0': 0, "'": 39, '"': 34}[n])
            i += 2
            continue
        out.append(ord(c))
        i += 1
    return bytes(out)
