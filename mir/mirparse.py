"""Parser for the textual MIR printed by `rustc -Zunpretty=mir` (nightly).

The dump is regenerated from /repo's working tree on every check run; this
module turns the text of the functions a check needs into a small AST.  It is
deliberately strict: anything it does not recognise raises MirSyntaxError, so
that an encoding is never built from a statement that was not understood
("fail closed").

AST (plain tuples):
  place   : ('local', n) | ('deref', p) | ('field', p, idx, type) |
            ('downcast', p, variant) | ('index', p, local_n) |
            ('constindex', p, off, minlen, from_end) | ('subslice', p, a, b, from_end)
  operand : ('copy', place) | ('move', place) | ('const', text, type_or_None)
  rvalue  : ('use', operand) | ('ref', mutbl, place) | ('rawptr', mutbl, place)
            | ('cast', operand, type, kind) | ('binop', op, a, b) | ('unop', op, a)
            | ('discriminant', place) | ('len', place)
            | ('tuple', [ops]) | ('array', [ops]) | ('repeat', op, count_text)
            | ('adt', path, variant_or_None, [(fieldname_or_None, op)])
            | ('closure', text, [(name, op)])
  stmt    : ('assign', place, rvalue) | ('setdiscr', place, n) | ('nop',)
  term    : ('goto', bb) | ('switch', operand, [(val, bb)], otherwise_bb_or_None)
            | ('return',) | ('unreachable',) | ('resume',)
            | ('call', dest_place_or_None, callee_text, [ops], ret_bb_or_None)
            | ('drop', place, bb) | ('assert', cond_operand, expected_bool, msg, bb)
"""
import re


class MirSyntaxError(Exception):
    pass


# --------------------------------------------------------------------------- helpers
_OPEN = {'(': ')', '[': ']', '{': '}', '<': '>'}
_CLOSE = {v: k for k, v in _OPEN.items()}


def _skip_string(s, i):
    """s[i] is a quote char; return index after the closing quote."""
    q = s[i]
    i += 1
    while i < len(s):
        c = s[i]
        if c == '\\':
            i += 2
            continue
        if c == q:
            return i + 1
        i += 1
    raise MirSyntaxError("unterminated string in: " + s[:80])


def split_top(s, sep=','):
    """Split s on sep at bracket depth 0 (angle brackets count except in '->' / '=>' / ' < ' ops)."""
    out, depth, start, i = [], 0, 0, 0
    n = len(s)
    while i < n:
        c = s[i]
        if c == '"':
            i = _skip_string(s, i)
            continue
        if c == "'" :
            # char literal (const 'a') or lifetime ('_ / 'a). A char literal closes within 12 chars.
            m = re.match(r"'(\\.[^']*|[^'\\])'", s[i:])
            if m:
                i += m.end()
                continue
            i += 1
            continue
        if c in '([{':
            depth += 1
        elif c in ')]}':
            depth -= 1
        elif c == '<':
            depth += 1
        elif c == '>':
            if i > 0 and s[i - 1] in '-=':
                pass
            else:
                depth -= 1
        elif depth == 0 and s.startswith(sep, i):
            out.append(s[start:i].strip())
            i += len(sep)
            start = i
            continue
        i += 1
    last = s[start:].strip()
    if last or out:
        out.append(last)
    return out


def find_top(s, needle, start=0):
    """Index of needle at bracket depth 0 (round/square/curly/angle), or -1."""
    depth, i, n = 0, start, len(s)
    while i < n:
        c = s[i]
        if depth == 0 and s.startswith(needle, i):
            return i
        if c == '"':
            i = _skip_string(s, i)
            continue
        if c == "'":
            m = re.match(r"'(\\.[^']*|[^'\\])'", s[i:])
            if m:
                i += m.end()
                continue
            i += 1
            continue
        if c in '([{<':
            depth += 1
        elif c in ')]}':
            depth -= 1
        elif c == '>':
            if not (i > 0 and s[i - 1] in '-='):
                depth -= 1
        i += 1
    return -1


def match_paren(s, i):
    """s[i] is an opening bracket of ([{ ; return index of its partner."""
    o = s[i]
    c = _OPEN[o]
    depth = 0
    n = len(s)
    while i < n:
        ch = s[i]
        if ch == '"':
            i = _skip_string(s, i)
            continue
        if ch == "'":
            m = re.match(r"'(\\.[^']*|[^'\\])'", s[i:])
            if m:
                i += m.end()
                continue
            i += 1
            continue
        if ch == o:
            depth += 1
        elif ch == c:
            depth -= 1
            if depth == 0:
                return i
        i += 1
    raise MirSyntaxError("unbalanced: " + s[:80])


# --------------------------------------------------------------------------- places
def parse_place(s):
    s = s.strip()
    p, rest = _parse_place_prefix(s)
    if rest.strip():
        raise MirSyntaxError("trailing text after place: %r in %r" % (rest, s))
    return p


def _parse_place_prefix(s):
    s = s.lstrip()
    m = re.match(r'_(\d+)', s)
    if m:
        p = ('local', int(m.group(1)))
        rest = s[m.end():]
    elif s.startswith('('):
        j = match_paren(s, 0)
        inner = s[1:j]
        rest = s[j + 1:]
        p = _parse_paren_place(inner)
    else:
        raise MirSyntaxError("not a place: %r" % s[:80])
    # postfix indexing
    while rest.startswith('['):
        j = match_paren(rest, 0)
        idx = rest[1:j].strip()
        rest = rest[j + 1:]
        m = re.fullmatch(r'_(\d+)', idx)
        if m:
            p = ('index', p, int(m.group(1)))
            continue
        m = re.fullmatch(r'(-?)(\d+) of (\d+)', idx)
        if m:
            p = ('constindex', p, int(m.group(2)), int(m.group(3)), m.group(1) == '-')
            continue
        m = re.fullmatch(r'(\d+):(-?)(\d*)', idx)
        if m:
            p = ('subslice', p, int(m.group(1)), int(m.group(3) or 0), m.group(2) == '-')
            continue
        raise MirSyntaxError("unknown index projection: %r" % idx)
    return p, rest


def _parse_paren_place(inner):
    inner = inner.strip()
    if inner.startswith('*'):
        return ('deref', parse_place(inner[1:]))
    # (P as Variant)  or (P.N: T)  -- P itself may be parenthesised
    p, rest = _parse_place_prefix(inner)
    rest = rest.lstrip()
    if rest.startswith('as '):
        what = rest[3:].strip()
        if what.startswith('subtype ') or not re.fullmatch(r'[A-Za-z_][A-Za-z0-9_]*', what):
            # opaque cast / subtype: keep the place, remember nothing
            return ('oscast', p, what)
        return ('downcast', p, what)
    m = re.match(r'\.(\d+):\s*', rest)
    if m:
        return ('field', p, int(m.group(1)), norm_type(rest[m.end():]))
    if not rest:
        return p
    raise MirSyntaxError("unknown place form: (%s)" % inner[:100])


# --------------------------------------------------------------------------- types
def norm_type(t):
    t = t.strip()
    # drop lifetimes
    t = re.sub(r"&'[a-z_][a-z0-9_]* ", '&', t)
    t = re.sub(r"<'[a-z_][a-z0-9_]*>", '', t)
    t = re.sub(r"'[a-z_][a-z0-9_]*, ", '', t)
    t = re.sub(r"<'[a-z_][a-z0-9_]*, ", '<', t)
    return t


def strip_paths(t):
    """Drop module paths: alpha::value_type::ValueType<I> -> ValueType<I>."""
    return re.sub(r'(?:[A-Za-z_][A-Za-z0-9_]*::)+(?=[A-Za-z_{<])', '', t)


# --------------------------------------------------------------------------- operands
_INT_SUFFIX = re.compile(r'^(-?\d+)_(u8|u16|u32|u64|u128|usize|i8|i16|i32|i64|i128|isize)$')


def parse_operand(s):
    s = s.strip()
    if s.startswith('copy '):
        return ('copy', parse_place(s[5:]))
    if s.startswith('move '):
        return ('move', parse_place(s[5:]))
    if s.startswith('no_retag copy '):
        return ('copy', parse_place(s[14:]))
    if s.startswith('no_retag move '):
        return ('move', parse_place(s[14:]))
    if s.startswith('const '):
        return ('const', s[6:].strip())
    if re.match(r'^[<A-Za-z_]', s) and '::' in s:
        return ('const', s)          # function item used as a value
    if re.fullmatch(r'[a-z_][A-Za-z0-9_]*', s):
        return ('const', s)          # function item of the same module
    raise MirSyntaxError("not an operand: %r" % s[:100])


def is_operand(s):
    s = s.lstrip()
    return s.startswith(('copy ', 'move ', 'const ', 'no_retag copy ', 'no_retag move '))


BINOPS = {
    'Add', 'Sub', 'Mul', 'Div', 'Rem', 'BitXor', 'BitAnd', 'BitOr', 'Shl', 'Shr',
    'Eq', 'Lt', 'Le', 'Ne', 'Ge', 'Gt', 'Cmp', 'Offset',
    'AddWithOverflow', 'SubWithOverflow', 'MulWithOverflow',
    'AddUnchecked', 'SubUnchecked', 'MulUnchecked', 'ShlUnchecked', 'ShrUnchecked',
}
UNOPS = {'Not', 'Neg', 'PtrMetadata'}


def parse_rvalue(s):
    s = s.strip()
    # casts:  <operand> as <type> (<Kind>)
    if is_operand(s):
        k = find_top(s, ' as ')
        if k >= 0 and s.endswith(')'):
            op = parse_operand(s[:k])
            rest = s[k + 4:]
            j = rest.rfind(' (')
            # the cast kind is the last parenthesised group
            depth = 0
            jj = len(rest) - 1
            while jj >= 0:
                if rest[jj] == ')':
                    depth += 1
                elif rest[jj] == '(':
                    depth -= 1
                    if depth == 0:
                        break
                jj -= 1
            return ('cast', op, norm_type(rest[:jj]), rest[jj + 1:-1])
        return ('use', parse_operand(s))
    if s.startswith('&raw const (fake) '):
        return ('rawptr', False, parse_place(s[18:]))
    if s.startswith('&raw const '):
        return ('rawptr', False, parse_place(s[11:]))
    if s.startswith('&raw mut '):
        return ('rawptr', True, parse_place(s[9:]))
    if s.startswith('&mut '):
        return ('ref', True, parse_place(s[5:]))
    if s.startswith('&fake shallow '):
        return ('ref', False, parse_place(s[14:]))
    if s.startswith('&'):
        return ('ref', False, parse_place(s[1:]))
    if s.startswith('deref_copy '):
        return ('use', ('copy', parse_place(s[11:])))
    m = re.match(r'([A-Za-z]+)\(', s)
    if m and s.endswith(')') and match_paren(s, m.end() - 1) == len(s) - 1:
        name = m.group(1)
        inner = s[m.end():-1]
        if name in BINOPS:
            a, b = split_top(inner)
            return ('binop', name, parse_operand(a), parse_operand(b))
        if name in UNOPS:
            return ('unop', name, parse_operand(inner))
        if name == 'discriminant':
            return ('discriminant', parse_place(inner))
        if name == 'Len':
            return ('len', parse_place(inner))
    if s.startswith('['):
        j = match_paren(s, 0)
        if j != len(s) - 1:
            raise MirSyntaxError("array rvalue: %r" % s[:100])
        inner = s[1:-1]
        k = find_top(inner, ';')
        if k >= 0:
            return ('repeat', parse_operand(inner[:k]), inner[k + 1:].strip())
        parts = [p for p in split_top(inner) if p]
        return ('array', [parse_operand(p) for p in parts])
    if s.startswith('('):
        j = match_paren(s, 0)
        if j == len(s) - 1:
            parts = [p for p in split_top(s[1:-1]) if p]
            return ('tuple', [parse_operand(p) for p in parts])
    if s.startswith('{closure@') or s.startswith('{coroutine@'):
        j = match_paren(s, 0)
        head = s[:j + 1]
        rest = s[j + 1:].strip()
        fields = []
        if rest:
            if not (rest.startswith('{') and rest.endswith('}')):
                raise MirSyntaxError("closure aggregate: %r" % s[:120])
            for part in split_top(rest[1:-1]):
                if not part:
                    continue
                k = part.index(':')
                fields.append((part[:k].strip(), parse_operand(part[k + 1:])))
        return ('closure', head, fields)
    # ADT aggregate: Path::Variant(ops) | Path { f: op } | Path::Variant | Path
    return _parse_adt(s)


def _parse_adt(s):
    # find the end of the path (top-level '(' or ' {')
    kparen = find_top(s, '(')
    kbrace = find_top(s, ' {')
    fields = []
    if kbrace >= 0 and (kparen < 0 or kbrace < kparen) and s.endswith('}'):
        path = s[:kbrace]
        inner = s[kbrace + 2:-1]
        for part in split_top(inner):
            if not part:
                continue
            k = part.index(':')
            fields.append((part[:k].strip(), parse_operand(part[k + 1:])))
    elif kparen >= 0 and s.endswith(')'):
        path = s[:kparen]
        inner = s[kparen + 1:-1]
        for part in split_top(inner):
            if part:
                fields.append((None, parse_operand(part)))
    else:
        path = s
    if not re.match(r'^[<A-Za-z_(\[]', path):
        raise MirSyntaxError("unknown rvalue: %r" % s[:120])
    return ('adt', path.strip(), fields)


# --------------------------------------------------------------------------- statements
def parse_statement(line):
    s = line.strip()
    if not s.endswith(';'):
        raise MirSyntaxError("statement without ';': %r" % s[:100])
    s = s[:-1]
    if s in ('nop',) or s.startswith(('StorageLive(', 'StorageDead(', 'FakeRead(', 'PlaceMention(',
                                      'AscribeUserType(', 'Coverage::', 'Retag(', 'ConstEvalCounter',
                                      'Deinit(', 'BackwardIncompatibleDropHint(')):
        return ('nop',)
    if s == 'return':
        return ('return',)
    if s == 'unreachable':
        return ('unreachable',)
    if s == 'resume' or s.startswith('terminate('):
        return ('resume',)
    m = re.match(r'goto -> bb(\d+)$', s)
    if m:
        return ('goto', int(m.group(1)))
    if s.startswith('switchInt('):
        j = match_paren(s, s.index('('))
        op = parse_operand(s[10:j])
        rest = s[j + 1:].strip()
        m = re.match(r'-> \[(.*)\]$', rest)
        if not m:
            raise MirSyntaxError("switchInt targets: %r" % s[:120])
        targets, otherwise = [], None
        for part in split_top(m.group(1)):
            k, v = part.split(':')
            bb = int(v.strip()[2:])
            if k.strip() == 'otherwise':
                otherwise = bb
            else:
                targets.append((int(k.strip()), bb))
        return ('switch', op, targets, otherwise)
    if s.startswith('drop('):
        j = match_paren(s, 4)
        m = re.search(r'return: bb(\d+)', s[j:])
        return ('drop', parse_place(s[5:j]), int(m.group(1)) if m else None)
    if s.startswith('assert('):
        j = match_paren(s, 6)
        parts = split_top(s[7:j])
        cond = parts[0]
        expected = True
        if cond.startswith('!'):
            expected = False
            cond = cond[1:]
        m = re.search(r'success: bb(\d+)', s[j:])
        msg = parts[1] if len(parts) > 1 else ''
        return ('assert', parse_operand(cond), expected, msg, int(m.group(1)))
    m = re.match(r'discriminant\((.*)\) = (\d+)$', s)
    if m:
        return ('setdiscr', parse_place(m.group(1)), int(m.group(2)))
    # assignment or call
    k = find_top(s, ' = ')
    if k < 0:
        raise MirSyntaxError("unknown statement: %r" % s[:120])
    dest = parse_place(s[:k])
    rhs = s[k + 3:]
    karrow = _find_call_arrow(rhs)
    if karrow >= 0:
        callpart = rhs[:karrow].rstrip()
        targets = rhs[karrow + 4:]
        if not callpart.endswith(')'):
            raise MirSyntaxError("call syntax: %r" % s[:160])
        # the argument list is the last balanced (...) group
        depth, i = 0, len(callpart) - 1
        while i >= 0:
            c = callpart[i]
            if c == ')':
                depth += 1
            elif c == '(':
                depth -= 1
                if depth == 0:
                    break
            elif c == '"':
                # skip backwards over a string literal
                i -= 1
                while i >= 0 and not (callpart[i] == '"' and callpart[i - 1] != '\\'):
                    i -= 1
            i -= 1
        callee = callpart[:i].strip()
        args = [parse_operand(a) for a in split_top(callpart[i + 1:-1]) if a]
        m = re.search(r'return: bb(\d+)', targets)
        return ('call', dest, callee, args, int(m.group(1)) if m else None)
    return ('assign', dest, parse_rvalue(rhs))


def _find_call_arrow(rhs):
    """Index of the ' -> ' that separates a call from its targets (the last one at depth 0)."""
    k, last = 0, -1
    while True:
        k = find_top(rhs, ' -> ', k)
        if k < 0:
            return last
        tail = rhs[k + 4:].lstrip()
        if tail.startswith('[') or re.match(r'(bb\d+|unwind)', tail):
            last = k
        k += 4


# --------------------------------------------------------------------------- functions
class Function:
    __slots__ = ('name', 'params', 'ret', 'locals', 'blocks', 'raw', 'argcount', 'debug', 'header', '_cursor_locals', '_parsed')

    def __init__(self):
        self.locals = {}
        self.blocks = {}
        self.debug = {}
        self._parsed = {}


_FN_HDR = re.compile(r'^fn (.*)\((.*)\) -> (.*) \{$')


class MirDump:
    """Index of a MIR dump; bodies are parsed on demand."""

    def __init__(self, path):
        self.path = path
        self.text = open(path).read()
        self.lines = self.text.split('\n')
        self.fn_index = {}      # full header name -> (start_line, end_line)
        self.const_index = {}
        self._cache = {}
        self.const_literals = {}
        i, n = 0, len(self.lines)
        while i < n:
            ln = self.lines[i]
            m1 = re.match(r'^const (.*): ([^:=]+) = const (.*);$', ln)
            if m1:
                self.const_literals[m1.group(1)] = (m1.group(3), m1.group(2).strip())
            if ln.startswith(('fn ', 'const ', 'static ')) and ln.endswith('{'):
                j = i + 1
                while j < n and self.lines[j] != '}':
                    j += 1
                if ln.startswith('fn '):
                    name = self._hdr_name(ln)
                    self.fn_index.setdefault(name, []).append((i, j))
                else:
                    m = re.match(r'^(?:const|static(?: mut)?) (.*) = \{$', ln)
                    if m:
                        body = m.group(1)
                        k = find_top(body, ': ')
                        if k > 0:
                            self.const_index.setdefault(body[:k], []).append((i, j, body[k + 2:]))
                i = j
            i += 1

    @staticmethod
    def _hdr_name(ln):
        # fn NAME(args) -> RET {   ; NAME may contain "(" inside <impl at ...> no, but closures have {closure#0}
        s = ln[3:]
        k = find_top(s, '(')
        return s[:k]

    def function_names(self):
        return list(self.fn_index)

    def text_of(self, name, which=0):
        """Raw text of a function body."""
        i, j = self.fn_index[name][which]
        return '\n'.join(self.lines[i:j + 1])

    def get(self, name, which=0):
        key = (name, which)
        if key not in self._cache:
            i, j = self.fn_index[name][which]
            self._cache[key] = self._parse_fn(i, j)
        return self._cache[key]

    def get_const(self, name, which=0):
        key = ('const', name, which)
        if key not in self._cache:
            i, j, ty = self.const_index[name][which]
            f = self._parse_body(i, j)
            f.name = name
            f.params = []
            f.ret = norm_type(ty)
            f.argcount = 0
            self._cache[key] = f
        return self._cache[key]

    def _parse_fn(self, i, j):
        hdr = self.lines[i]
        s = hdr[3:-2]
        k = find_top(s, '(')
        name = s[:k]
        kk = match_paren(s, k)
        params = []
        for part in split_top(s[k + 1:kk]):
            if not part:
                continue
            m = re.match(r'_(\d+): (.*)$', part)
            params.append((int(m.group(1)), norm_type(m.group(2))))
        ret = s[kk + 1:].strip()
        assert ret.startswith('->'), hdr
        f = self._parse_body(i, j)
        f.name = name
        f.header = hdr
        f.params = params
        f.ret = norm_type(ret[2:])
        f.argcount = len(params)
        for n_, t in params:
            f.locals[n_] = t
        return f

    def _parse_body(self, i, j):
        f = Function()
        f.raw = (i, j)
        cur = None
        for ln in self.lines[i + 1:j]:
            s = ln.strip()
            if not s or s.startswith('//'):
                continue
            m = re.match(r'let (?:mut )?_(\d+): (.*);$', s)
            if m:
                f.locals[int(m.group(1))] = norm_type(m.group(2))
                continue
            if s.startswith('debug '):
                m = re.match(r'debug (\S+) => (.*);$', s)
                if m:
                    f.debug[m.group(1)] = m.group(2)
                continue
            if s.startswith('scope ') or s == '}':
                continue
            m = re.match(r'bb(\d+)(?: \(cleanup\))?: \{$', s)
            if m:
                cur = int(m.group(1))
                f.blocks[cur] = []
                continue
            if cur is None:
                raise MirSyntaxError("statement outside block: %r" % s[:100])
            f.blocks[cur].append(s)
        return f


def parsed_block(fn, bb):
    """Parse the statements of block bb of fn (memoised on the function object)."""
    cache = fn._parsed
    r = cache.get(bb)
    if r is None:
        r = [parse_statement(s) for s in fn.blocks[bb]]
        cache[bb] = r
    return r


if __name__ == '__main__':
    import sys, collections
    d = MirDump(sys.argv[1])
    bad = collections.Counter()
    nst = 0
    for name in d.function_names():
        for w in range(len(d.fn_index[name])):
            f = d.get(name, w)
            for bb, stmts in f.blocks.items():
                for s in stmts:
                    nst += 1
                    try:
                        parse_statement(s)
                    except Exception as e:
                        bad[re.sub(r'\d+', 'N', s)[:110]] += 1
    print(len(d.fn_index), 'functions', nst, 'statements', sum(bad.values()), 'unparsed')
    for k, v in bad.most_common(40):
        print(v, k)
